'''C17: constructor registry for nutils objects (Immutable / Singleton / DataClass
instances), mesh-derived values with behavioural discriminators, SI quantities.

The parameter names and defaults are written down by hand here (not taken from
the signatures that nutils' metaclasses synthesise), so that positional,
keyword and defaulted calls are independent routes to the same structure.
'''

import functools
import numpy
from .c17_corpus import I, F, B, S, T, FSET, TYPE, canon, _jkey


@functools.lru_cache(None)
def registry():
    from nutils import types, evaluable as ev, transform, element, points, pointsseq, elementseq, transformseq, solver
    from . import c17_classes as K
    R = {}

    def add(name, fn, params, defaults=None, kind=None, extra=(), attrs=None):
        R[name] = dict(fn=fn, params=list(params), defaults=defaults or {}, kind=kind, extra=list(extra), attrs=attrs or {})

    ab = dict(params=['a', 'b'], defaults={'b': I(2)}, attrs={'a': 'a', 'b': 'b'})
    add('K.Imm', K.Imm, kind='Immutable', **ab)
    add('K.Imm2', K.Imm2, kind='Immutable', **ab)
    add('K.ImmV', K.ImmV, kind='Immutable', **ab)
    add('K.Outer.Imm', K.Outer.Imm, kind='Immutable', **ab)
    add('K.Sing', K.Sing, kind='Singleton', **ab)
    add('K.Sing2', K.Sing2, kind='Singleton', **ab)
    add('K.DC', K.DC, kind='DataClass', **ab)
    add('K.DC2', K.DC2, kind='DataClass', **ab)
    add('K.Outer.DC', K.Outer.DC, kind='DataClass', **ab)
    abc = dict(params=['a', 'b', 'c'], attrs={'a': 'a', 'b': 'b', 'c': 'c'})
    add('K.ImmKw', K.make_kw(K.ImmKw), kind='Immutable', **abc)
    add('K.SingKw', K.make_kw(K.SingKw), kind='Singleton', **abc)
    add('K.DCsub', K.DCsub, ['a', 'b', 'c'], {'b': I(2), 'c': I(3)}, kind='DataClass', attrs={'a': 'a', 'b': 'b', 'c': 'c'})

    # ---- evaluable (DataClass)
    def items2(a):
        x, y = list(a['funcs'])
        return x, y
    add('ev.Argument', ev.Argument, ['name', 'shape', 'dtype'], {'dtype': TYPE('float')}, kind='DataClass', attrs={'name': 'name', 'dtype': 'dtype'})
    add('ev.Constant', ev.Constant, ['_value'], kind='DataClass', attrs={'_value': '_value'},
        extra=[lambda a: ev.constant(numpy.asarray(a['_value'])), lambda a: ev.constant(a['_value'])])
    add('ev.Zeros', ev.Zeros, ['shape', 'dtype'], kind='DataClass', extra=[lambda a: ev.zeros(a['shape'], a['dtype'])])
    for n in ('Negative', 'Sin', 'Cos', 'Exp', 'Reciprocal', 'Absolute', 'IntToFloat'):
        add('ev.' + n, getattr(ev, n), ['arg'], kind='DataClass')
    add('ev.Sinc', ev.Sinc, ['arg', 'n'], {'n': I(0)}, kind='DataClass', attrs={'n': 'n'})
    add('ev.Add', ev.Add, ['funcs'], kind='DataClass',
        extra=[lambda a: ev.add(*items2(a)), lambda a: ev.add(*reversed(items2(a))), lambda a: items2(a)[0] + items2(a)[1], lambda a: items2(a)[1] + items2(a)[0]])
    add('ev.Multiply', ev.Multiply, ['funcs'], kind='DataClass',
        extra=[lambda a: ev.multiply(*items2(a)), lambda a: ev.multiply(*reversed(items2(a))), lambda a: items2(a)[0] * items2(a)[1], lambda a: items2(a)[1] * items2(a)[0]])
    add('ev.Power', ev.Power, ['func', 'power'], kind='DataClass', extra=[lambda a: ev.power(a['func'], a['power'])])
    add('ev.Minimum', ev.Minimum, ['x', 'y'], kind='DataClass')
    add('ev.Maximum', ev.Maximum, ['x', 'y'], kind='DataClass')
    add('ev.ArcTan2', ev.ArcTan2, ['x', 'y'], kind='DataClass')
    add('ev.Equal', ev.Equal, ['x', 'y'], kind='DataClass')
    add('ev.Sum', ev.Sum, ['func'], kind='DataClass')
    add('ev.InsertAxis', ev.InsertAxis, ['func', 'length'], kind='DataClass')
    add('ev.Tuple', ev.Tuple, ['items'], kind='DataClass')
    add('ev.Transpose', ev.Transpose, ['func', 'axes'], kind='DataClass', attrs={'axes': 'axes'})
    add('ev.Take', ev.Take, ['func', 'indices'], kind='DataClass')
    add('ev.Range', ev.Range, ['length'], kind='DataClass')
    add('ev.Diagonalize', ev.Diagonalize, ['func'], kind='DataClass')

    # ---- transform items (Singleton)
    add('tr.Identity', transform.Identity, ['ndims'], kind='Singleton')
    add('tr.Index', transform.Index, ['ndims', 'index'], kind='Singleton', attrs={'index': 'index'})
    add('tr.SimplexEdge', transform.SimplexEdge, ['ndims', 'iedge', 'inverted'], {'inverted': B(False)}, kind='Singleton', attrs={'iedge': 'iedge', 'inverted': 'inverted'})
    add('tr.SimplexChild', transform.SimplexChild, ['ndims', 'ichild'], kind='Singleton')
    add('tr.Matrix', transform.Matrix, ['linear', 'offset'], kind='Singleton')
    add('tr.Square', transform.Square, ['linear', 'offset'], kind='Singleton')
    add('tr.Updim', transform.Updim, ['linear', 'offset', 'isflipped'], kind='Singleton')
    add('tr.Point', transform.Point, ['offset'], kind='Singleton')
    add('tr.ScaledUpdim', transform.ScaledUpdim, ['trans1', 'trans2'], kind='Singleton')
    add('tr.TensorEdge1', transform.TensorEdge1, ['trans1', 'ndims2'], kind='Singleton')
    add('tr.TensorEdge2', transform.TensorEdge2, ['ndims1', 'trans2'], kind='Singleton')
    add('tr.TensorChild', transform.TensorChild, ['trans1', 'trans2'], kind='Singleton')

    # ---- references
    for n in ('PointReference', 'LineReference', 'TriangleReference', 'TetrahedronReference'):
        add('el.' + n, getattr(element, n), [], kind='Singleton')
    add('el.TensorReference', element.TensorReference, ['ref1', 'ref2'], kind='Singleton')
    add('el.EmptyLike', element.EmptyLike, ['baseref'], kind='Singleton', extra=[lambda a: a['baseref'].empty])
    add('el.OwnChildReference', element.OwnChildReference, ['baseref'], kind='Singleton')
    add('el.WithChildrenReference', element.WithChildrenReference, ['baseref', 'child_refs'], kind='Singleton')

    # ---- points
    add('pt.CoordsPoints', points.CoordsPoints, ['coords'], kind='Singleton')
    add('pt.CoordsWeightsPoints', points.CoordsWeightsPoints, ['coords', 'weights'], kind='Singleton')
    add('pt.CoordsUniformPoints', points.CoordsUniformPoints, ['coords', 'volume'], kind='Singleton')
    add('pt.TensorPoints', points.TensorPoints, ['points1', 'points2'], kind='Singleton')
    add('pt.SimplexGaussPoints', points.SimplexGaussPoints, ['ndims', 'degree'], kind='Singleton')
    add('pt.SimplexBezierPoints', points.SimplexBezierPoints, ['ndims', 'n'], kind='Singleton')
    add('pt.TransformPoints', points.TransformPoints, ['points', 'trans'], kind='Singleton')
    add('pt.ConcatPoints', points.ConcatPoints, ['allpoints', 'duplicates'], {'duplicates': FSET()}, kind='Singleton')

    # ---- sequences
    add('es._Empty', elementseq._Empty, ['ndims'], kind='Singleton', extra=[lambda a: elementseq.References.empty(a['ndims'])])
    add('es._Uniform', elementseq._Uniform, ['item', 'length'], kind='Singleton', extra=[lambda a: elementseq.References.uniform(a['item'], a['length'])])
    add('es._Plain', elementseq._Plain, ['items', 'ndims'], kind='Singleton', extra=[lambda a: elementseq.References.from_iter(a['items'], a['ndims'])])
    add('es._Take', elementseq._Take, ['parent', 'indices'], kind='Singleton')
    add('es._Repeat', elementseq._Repeat, ['parent', 'count'], kind='Singleton', extra=[lambda a: a['parent'].repeat(a['count'])])
    add('es._Product', elementseq._Product, ['sequence1', 'sequence2'], kind='Singleton', extra=[lambda a: a['sequence1'] * a['sequence2']])
    add('es._Chain', elementseq._Chain, ['sequence1', 'sequence2'], kind='Singleton', extra=[lambda a: a['sequence1'].chain(a['sequence2'])])
    add('es._Derived', elementseq._Derived, ['parent', 'derived_attribute', 'ndims'], kind='Singleton')
    add('ps._Empty', pointsseq._Empty, ['ndims'], kind='Singleton')
    add('ps._Uniform', pointsseq._Uniform, ['item', 'length'], kind='Singleton', extra=[lambda a: pointsseq.PointsSequence.uniform(a['item'], a['length'])])
    add('ps._Plain', pointsseq._Plain, ['items', 'ndims'], kind='Singleton', extra=[lambda a: pointsseq.PointsSequence.from_iter(a['items'], a['ndims'])])
    add('ps._Product', pointsseq._Product, ['sequence1', 'sequence2'], kind='Singleton')
    add('ts.EmptyTransforms', transformseq.EmptyTransforms, ['todims', 'fromdims'], kind='Singleton')
    add('ts.PlainTransforms', transformseq.PlainTransforms, ['transforms', 'todims', 'fromdims'], kind='Singleton')
    add('ts.IndexTransforms', transformseq.IndexTransforms, ['ndims', 'length', 'offset'], {'offset': I(0)}, kind='Singleton')
    add('ts.DimAxis', transformseq.DimAxis, ['i', 'j', 'mod', 'isperiodic'], kind='Singleton')
    add('ts.IntAxis', transformseq.IntAxis, ['i', 'j', 'mod', 'ibound', 'side'], kind='Singleton')
    add('ts.StructuredTransforms', transformseq.StructuredTransforms, ['root', 'axes', 'nrefine'], kind='Singleton')
    add('ts.MaskedTransforms', transformseq.MaskedTransforms, ['parent', 'indices'], kind='Singleton')
    add('ts.ReorderedTransforms', transformseq.ReorderedTransforms, ['parent', 'indices'], kind='Singleton')
    add('ts.ChainedTransforms', transformseq.ChainedTransforms, ['items'], kind='Singleton')
    add('ts.UniformDerivedTransforms', transformseq.UniformDerivedTransforms, ['parent', 'parent_reference', 'derived_attribute', 'fromdims'], kind='Singleton')

    # ---- solver method objects (plain classes with a __nutils_hash__ property); linargs are passed as keywords
    def method(cls, names):
        def make(*args, **kwargs):
            kwargs = dict(kwargs)
            linargs = kwargs.pop('linargs', None)
            if len(args) > len(names):
                args, linargs = args[:len(names)], args[len(names)]
            return cls(*args, **kwargs, **(linargs or {}))
        return make
    add('solver.Direct', method(solver.Direct, []), ['linargs'], {'linargs': ['dict', []]}, kind='plain')
    add('solver.Newton', method(solver.Newton, []), ['linargs'], {'linargs': ['dict', []]}, kind='plain')
    add('solver.ReuseNewton', method(solver.ReuseNewton, ['require']), ['require', 'linargs'], {'require': F(.5), 'linargs': ['dict', []]}, kind='plain')
    add('solver.LinesearchNewton', method(solver.LinesearchNewton, ['strategy', 'failrelax', 'relax0']), ['strategy', 'failrelax', 'relax0', 'linargs'],
        {'strategy': ['inst', 'solver.NormBased', [['minscale', F(.01)], ['acceptscale', F(2 / 3)], ['maxscale', F(2.)]]], 'failrelax': F(1e-6), 'relax0': F(1.), 'linargs': ['dict', []]}, kind='plain')
    add('solver.Minimize', method(solver.Minimize, ['rampup', 'rampdown', 'failrelax']), ['rampup', 'rampdown', 'failrelax', 'linargs'],
        {'rampup': F(.5), 'rampdown': F(-1.), 'failrelax': F(-10.), 'linargs': ['dict', []]}, kind='plain')
    add('solver.Pseudotime', method(solver.Pseudotime, ['inertia', 'timestep']), ['inertia', 'timestep', 'linargs'], {'linargs': ['dict', []]}, kind='plain')
    return R


def O(ctor, *args, **kwargs):
    'full spec of a constructor call: every parameter explicit, in signature order'
    ent = registry()[ctor]
    params = ent['params']
    if len(args) > len(params):
        raise TypeError('too many arguments for ' + ctor)
    bound = dict(zip(params, args))
    for k, v in kwargs.items():
        if k in bound or k not in params:
            raise TypeError('bad argument {} for {}'.format(k, ctor))
        bound[k] = v
    for p in params:
        if p not in bound:
            bound[p] = ent['defaults'][p]
    return ['obj', ctor, [[p, bound[p]] for p in params]]


def obj_nvariants(s):
    return 4 + len(registry()[s[1]]['extra'])


def build_obj(s, k, build, py=False):
    ent = registry()[s[1]]
    py = py or not s[1].startswith('K.')  # nutils constructors insist on Python ints / bools / floats
    vals = [(p, build(a, k, py)) for p, a in s[2]]
    nv = 4 + len(ent['extra'])
    kk = k % nv
    if kk >= 4:
        return ent['extra'][kk - 4](dict(vals))
    if kk in (2, 3):  # leave out (trailing) parameters that equal their default
        keep = list(vals)
        specs = dict((p, a) for p, a in s[2])
        while keep and keep[-1][0] in ent['defaults'] and _jkey(canon(specs[keep[-1][0]])) == _jkey(canon(ent['defaults'][keep[-1][0]])):
            keep.pop()
        vals = keep
    if kk in (0, 2):
        return ent['fn'](*[v for p, v in vals])
    return ent['fn'](**dict(reversed(vals)))


def obj_kind(s):
    return registry()[s[1]]['kind']


# ------------------------------------------------------------------ SI quantities (deprecated module, still hashable)

_SI = {'Length': ('m', 'cm', 100.), 'Time': ('s', 'ms', 1000.), 'Mass': ('kg', 'g', 1000.)}


def build_si(s, k):
    import warnings
    with warnings.catch_warnings():
        warnings.simplefilter('ignore')
        from nutils import SI
    unit, small, factor = _SI[s[1]]
    cls = getattr(SI, s[1])
    v = float(s[2])
    if k % 2 == 0:
        return cls('{!r}{}'.format(v, unit))
    return cls.wrap(v)


# ------------------------------------------------------------------ mesh-derived values

def _topologies():
    from nutils import mesh

    def line(n):
        return [lambda: mesh.line(n)[0], lambda: mesh.rectilinear([n])[0], lambda: mesh.rectilinear([numpy.linspace(0, n, n + 1)])[0]]

    def rect(n, m):
        return [lambda: mesh.rectilinear([n, m])[0], lambda: mesh.rectilinear([numpy.arange(n + 1.), numpy.arange(m + 1.)])[0]]
    T = {'line1': line(1), 'line2': line(2), 'line3': line(3), 'rect11': rect(1, 1), 'rect21': rect(2, 1), 'rect12': rect(1, 2),
         'line2p': [lambda: mesh.rectilinear([2], periodic=[0])[0], lambda: mesh.rectilinear([2], periodic=(0,))[0]],
         'tri': [lambda: mesh.unitsquare(1, 'triangle')[0]],
         'mixed': [lambda: mesh.unitsquare(2, 'mixed')[0]],
         'line2b': [lambda: mesh.line(2)[0].boundary, lambda: mesh.rectilinear([2])[0].boundary],
         'line2r': [lambda: mesh.line(2)[0].refined, lambda: mesh.line(2)[0].refine(1)],
         'line3s': [lambda: mesh.line(3)[0][:2], lambda: mesh.rectilinear([3])[0][0:2]],
         'rect21b': [lambda: mesh.rectilinear([2, 1])[0].boundary['left'], lambda: mesh.rectilinear([2, 1])[0].boundary['left']]}
    return T


_ATTRS = {'refs': lambda t: t.references, 'trans': lambda t: t.transforms, 'opp': lambda t: t.opposites,
          'gauss1': lambda t: t.sample('gauss', 1), 'gauss2': lambda t: t.sample('gauss', 2), 'bezier2': lambda t: t.sample('bezier', 2),
          'uniform1': lambda t: t.sample('uniform', 1), 'gauss2pts': lambda t: t.sample('gauss', 2).points,
          'ibasis': lambda t: t.sample('gauss', 1).integral(t.basis('discont', degree=1)).as_evaluable_array,
          'ione': lambda t: t.sample('gauss', 2).integral(1.).as_evaluable_array}


def _systems():
    from nutils import function, solver
    u = function.Argument('u', (2,))
    v = function.Argument('v', (2,))
    quad_u = (u**2).sum()
    quad_shift = ((u - 1.)**2).sum()
    quad_uv = ((u - v)**2).sum() + (u**2).sum() + ((v - 2.)**2).sum()
    return {'sys.quad_u': [lambda: solver.System(quad_u, 'u'), lambda: solver.System(quad_u, ('u',)), lambda: solver.System(quad_u, trial='u', test='u')],
            'sys.quad_shift': [lambda: solver.System(quad_shift, 'u'), lambda: solver.System(quad_shift, trial=('u',))],
            'sys.quad_uv': [lambda: solver.System(quad_uv, 'u,v'), lambda: solver.System(quad_uv, ('u', 'v'))],
            'sys.quad_vu': [lambda: solver.System(quad_uv, 'v,u'), lambda: solver.System(quad_uv, ('v', 'u'))],
            'sys.quad_uv_only_u': [lambda: solver.System(quad_uv, 'u')],
            'sys.res_u': [lambda: solver.System([2. * u], 'u'), lambda: solver.System((2. * u,), ('u',))],
            'sys.res_shift': [lambda: solver.System([2. * (u - 1.)], 'u')]}


@functools.lru_cache(None)
def _named():
    out = {}
    for t, makers in _topologies().items():
        for a, get in _ATTRS.items():
            out['{}.{}'.format(t, a)] = [lambda m=m, get=get: get(m()) for m in makers]
    out.update(_systems())
    return out


def mesh_ids():
    return list(_named())


def mesh_nvariants(s):
    return max(2, len(_named()[s[1]]))


def build_mesh(s, k):
    makers = _named()[s[1]]
    return makers[k % len(makers)]()


def _obs_trans(chain):
    return [[type(t).__name__, numpy.asarray(t.linear).tolist(), numpy.asarray(t.offset).tolist(), int(getattr(t, 'index', -1))] for t in chain]


def observe(v):
    '''behavioural description of a mesh-derived object through public attributes
    only (no hashing, no equality of nutils objects): two objects with different
    descriptions certainly behave differently'''
    from nutils import elementseq, transformseq, pointsseq, sample, evaluable
    if isinstance(v, elementseq.References):
        return ['References', v.ndims, [[type(r).__name__, numpy.asarray(r.vertices).tolist()] for r in v]]
    if isinstance(v, transformseq.Transforms):
        return ['Transforms', v.todims, v.fromdims, [_obs_trans(chain) for chain in v]]
    if isinstance(v, pointsseq.PointsSequence):
        return ['PointsSequence', v.ndims, [[type(p).__name__, numpy.asarray(p.coords).tolist(), numpy.asarray(getattr(p, 'weights', [])).tolist()] for p in v]]
    if isinstance(v, sample.Sample):
        return ['Sample', type(v).__name__, v.ndims, v.nelems, v.npoints, [observe(seq) if not isinstance(seq, tuple) else [observe(x) for x in seq] for seq in (v.points,)],
                [numpy.asarray(v.getindex(i)).tolist() for i in range(v.nelems)],
                [observe(t) for t in getattr(v, 'transforms', ())]]
    from nutils import solver
    if isinstance(v, solver.System):
        args = {a: numpy.ones(2) for a in sorted(v.arguments) if a not in v.trials}
        try:
            sol = v.solve(arguments=args, tol=1e-10)
            sol = {k: numpy.round(numpy.asarray(x), 6).tolist() for k, x in sorted(sol.items())}
        except Exception as e:
            sol = type(e).__name__
        return ['System', list(v.trials), bool(v.is_symmetric), bool(v.is_linear), sorted(v.arguments), sol]
    if isinstance(v, evaluable.Evaluable):
        return ['Evaluable', v.asciitree(), [numpy.asarray(x).tolist() for x in evaluable.eval_once((v,))]]
    raise TypeError(type(v))
