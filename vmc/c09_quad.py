'''C09 part (b): quadrature tables on every reference element.

Exact reference values are computed in rational arithmetic without nutils:
monomials on simplices in closed form, on boxes as products, on clipped
polygons by Sutherland-Hodgman clipping followed by a fan triangulation and an
exact affine substitution.  Only the *vertices* of child elements are taken
from nutils (coordinate maps are the subject of C11), never points, weights or
determinants.
'''

import itertools, math, warnings
from fractions import Fraction as Fr
import numpy

EPS_IN = 1e-12          # points on the boundary count as inside
TOL_TABLE = 1.5e-15     # published 15-16 digit tables, error evaluated in exact arithmetic
TOL_LINE = 4e-15        # Golub-Welsch via LAPACK, error evaluated in exact arithmetic
TOL_FLOAT = 1e-13       # composite rules evaluated in float64 with fsum

TRI_MAX = 6             # points.gauss2 warns 'inexact integration' above this
TET_MAX = 7             # points.gauss3 warns above this


# ---------------------------------------------------------------- exact integrals

def simplex_monomial(exps):
    'integral of prod x_i^e_i over the unit simplex'
    num = 1
    for e in exps:
        num *= math.factorial(e)
    return Fr(num, math.factorial(sum(exps) + len(exps)))


def _pmul(p, q):
    r = {}
    for ea, ca in p.items():
        for eb, cb in q.items():
            e = tuple(x + y for x, y in zip(ea, eb))
            r[e] = r.get(e, 0) + ca * cb
    return r


def simplex_integral(verts, exps):
    'integral of the monomial x^exps over the simplex with the given vertices (any orientation), exact'
    n = len(verts) - 1
    v0 = verts[0]
    J = [[verts[j + 1][i] - v0[i] for j in range(n)] for i in range(n)]  # x_i = v0_i + sum_j J_ij xi_j
    det = _det(J)
    if det == 0:
        return Fr(0)
    zero = (0,) * n
    poly = {zero: Fr(1)}
    for i, e in enumerate(exps):
        lin = {zero: Fr(v0[i])}
        for j in range(n):
            if J[i][j] != 0:
                lin[tuple(1 if k == j else 0 for k in range(n))] = Fr(J[i][j])
        for _ in range(e):
            poly = _pmul(poly, lin)
    return abs(det) * sum(c * simplex_monomial(e) for e, c in poly.items())


def _det(A):
    n = len(A)
    if n == 0:
        return Fr(1)
    if n == 1:
        return A[0][0]
    if n == 2:
        return A[0][0] * A[1][1] - A[0][1] * A[1][0]
    return sum((-1)**j * A[0][j] * _det([row[:j] + row[j + 1:] for row in A[1:]]) for j in range(n))


def box_integral(lo, hi, exps):
    r = Fr(1)
    for a, b, e in zip(lo, hi, exps):
        r *= (Fr(b)**(e + 1) - Fr(a)**(e + 1)) / (e + 1)
    return r


def clip(poly, a, b, c):
    'part of the convex polygon (list of Fraction pairs) where a x + b y + c >= 0'
    out = []
    n = len(poly)
    for i in range(n):
        p, q = poly[i], poly[(i + 1) % n]
        lp = a * p[0] + b * p[1] + c
        lq = a * q[0] + b * q[1] + c
        if lp >= 0:
            out.append(p)
        if (lp > 0 and lq < 0) or (lp < 0 and lq > 0):
            t = lp / (lp - lq)
            out.append((p[0] + t * (q[0] - p[0]), p[1] + t * (q[1] - p[1])))
    ded = []
    for p in out:
        if not ded or p != ded[-1]:
            ded.append(p)
    if len(ded) > 1 and ded[0] == ded[-1]:
        ded.pop()
    return ded


def polygon_integral(poly, exps):
    if len(poly) < 3:
        return Fr(0)
    return sum(simplex_integral([poly[0], poly[i], poly[i + 1]], exps) for i in range(1, len(poly) - 1))


def monomials(ndims, degree):
    return [e for e in itertools.product(range(degree + 1), repeat=ndims) if sum(e) <= degree]


def frac(x):
    return Fr(float(x))


# ---------------------------------------------------------------- reference elements: spec -> (nutils reference, exact integrator, inside test)

class Shape:
    '''ref: the nutils reference; exact(exps): Fraction; inside(p): independent membership test or None;
    kind: simplex|tensor|children|trim; gauss_max: largest degree for which exactness is documented'''

    def __init__(self, spec, ref, exact, inside, kind, gauss_max, factors=None):
        self.spec, self.ref, self.exact, self.inside, self.kind, self.gauss_max, self.factors = spec, ref, exact, inside, kind, gauss_max, factors


def _in_simplex(p, eps=EPS_IN):
    return all(x >= -eps for x in p) and sum(p) <= 1 + eps


def _base(spec, lmax):
    'simplex or tensor base shape from ["simplex", n] / ["tensor", [n1, n2, ...]]'
    from nutils import element
    if spec[0] == 'simplex':
        n = spec[1]
        ref = element.getsimplex(n)
        gmax = {0: lmax, 1: lmax, 2: TRI_MAX, 3: TET_MAX}[n]
        return Shape(spec, ref, simplex_monomial, (lambda p: _in_simplex(p)), 'simplex', gmax, [n])
    if spec[0] == 'tensor':
        dims = spec[1]
        ref = element.getsimplex(dims[0])
        for n in dims[1:]:
            ref = ref * element.getsimplex(n)
        offs = numpy.cumsum([0] + dims)

        def exact(exps):
            r = Fr(1)
            for a, b in zip(offs, offs[1:]):
                r *= simplex_monomial(exps[a:b])
            return r

        def inside(p):
            return all(_in_simplex(p[a:b]) for a, b in zip(offs, offs[1:]))
        gmax = min({1: lmax, 2: TRI_MAX, 3: TET_MAX}[n] for n in dims)
        return Shape(spec, ref, exact, inside, 'tensor', gmax, dims)
    raise ValueError(spec)


def base_polygon(spec):
    'vertices (counter-clockwise) of a 2D base shape'
    if spec == ['simplex', 2]:
        return [(Fr(0), Fr(0)), (Fr(1), Fr(0)), (Fr(0), Fr(1))]
    if spec == ['tensor', [1, 1]]:
        return [(Fr(0), Fr(0)), (Fr(1), Fr(0)), (Fr(1), Fr(1)), (Fr(0), Fr(1))]
    raise ValueError(spec)


def build(spec, lmax):
    '''Shape for a spec, or None if nutils refuses to construct it / it degenerates to empty or to the base'''
    from nutils import element
    if spec[0] in ('simplex', 'tensor'):
        return _base(spec, lmax)
    if spec[0] == 'children':
        base = _base(spec[1], lmax)
        mask = spec[2]
        bref = base.ref
        assert len(mask) == bref.nchildren
        ref = bref.with_children(tuple(c if keep else c.empty for c, keep in zip(bref.child_refs, mask)))
        pieces = []
        for (ctrans, cref), keep in zip(bref.children, mask):
            if keep:
                v = [[frac(x) for x in row] for row in ctrans.apply(numpy.asarray(cref.vertices))]
                pieces.append(v)
        simplexlike = spec[1][0] == 'simplex'

        def exact(exps):
            if simplexlike:
                return sum(simplex_integral(v, exps) for v in pieces)
            return sum(box_integral([min(c) for c in zip(*v)], [max(c) for c in zip(*v)], exps) for v in pieces)
        gmax = base.gauss_max
        return Shape(spec, ref, exact, None, 'children', gmax)
    if spec[0] == 'trim':
        base = _base(spec[1], lmax)
        coef, maxrefine = spec[2], spec[3]
        nd = base.ref.ndims
        *a, c = [Fr(x).limit_denominator(64) for x in coef]   # level = a.x + c
        vertex = numpy.asarray(base.ref.getpoints('vertex', maxrefine).coords)
        levels = vertex @ numpy.array([float(x) for x in a]) + float(c)
        try:
            ref = base.ref.trim(levels, maxrefine=maxrefine, ndivisions=8)
        except NotImplementedError:
            return None
        if nd == 1:
            lo, hi = Fr(0), Fr(1)
            # a x + c >= 0
            cut = -c / a[0]
            if a[0] > 0:
                lo = max(lo, cut)
            else:
                hi = min(hi, cut)

            def exact(exps):
                return box_integral([lo], [hi], exps) if hi > lo else Fr(0)
        elif nd == 2:
            poly = clip(base_polygon(spec[1]), a[0], a[1], c)

            def exact(exps):
                return polygon_integral(poly, exps)
        else:
            exact = None
        fa = [float(x) for x in a]
        fc = float(c)
        binside = base.inside

        def inside(p):
            return binside(p) and float(numpy.dot(fa, p)) + fc >= -1e-11
        gmax = base.gauss_max if nd == 1 else min(base.gauss_max, TRI_MAX if nd == 2 else TET_MAX)
        return Shape(spec, ref, exact, inside, 'trim', gmax)
    raise ValueError(spec)


# ---------------------------------------------------------------- enumeration of specs

LINE = ['simplex', 1]
TRI = ['simplex', 2]
TET = ['simplex', 3]
SQUARE = ['tensor', [1, 1]]
CUBE = ['tensor', [1, 1, 1]]
PRISM = ['tensor', [2, 1]]
PRISM2 = ['tensor', [1, 2]]


def plain_specs():
    return [['simplex', 0], LINE, TRI, TET, SQUARE, CUBE, PRISM, PRISM2]


def children_specs(tier):
    out = []
    bases = [LINE, SQUARE, TRI] + ([CUBE, TET] if tier == 'thorough' else [])
    for b in bases:
        n = {1: 2, 2: 4, 3: 8}[sum(b[1]) if b[0] == 'tensor' else b[1]]
        for mask in itertools.product([0, 1], repeat=n):
            if 0 < sum(mask) < n:
                out.append(['children', b, list(mask)])
    return out


def trim_coefs(basespec, tier):
    'finite family of linear level sets a.x + c whose cuts fall on dyadic points of every (sub)edge'
    nd = sum(basespec[1]) if basespec[0] == 'tensor' else basespec[1]
    out = []
    if nd == 1:
        for k in range(1, 8):
            out.append([1, -k / 8])
            out.append([-1, k / 8])
        return out
    cs = [k / 4 for k in range(-7, 12)]
    for a in itertools.product([-2, -1, 0, 1, 2], repeat=nd):
        if not any(a):
            continue
        if basespec[0] == 'simplex':
            diffs = [abs(x - y) for x, y in itertools.combinations(a, 2)]
            if any(d not in (0, 1, 2, 4) for d in diffs):
                continue  # the cut of a diagonal edge would not be a dyadic point: nutils snaps it to k/256
        for c in cs:
            out.append(list(a) + [c])
    return out


def trim_specs(tier):
    out = []
    bases = [LINE, SQUARE, TRI]
    for b in bases:
        for mr in ((0, 1) if tier == 'quick' else (0, 1, 2)):
            for coef in trim_coefs(b, tier):
                out.append(['trim', b, coef, mr])
    return out


def trim3_specs(tier):
    out = []
    if tier == 'thorough':
        for b in (CUBE, TET):
            for coef in trim_coefs(b, tier):
                if abs(coef[-1] * 4) % 2 == 1 or max(abs(x) for x in coef[:-1]) > 1:
                    continue
                out.append(['trim', b, coef, 0])
    return out


# ---------------------------------------------------------------- schemes and degrees

def schemes_for(shape, tier):
    '''(scheme, degree, demands) triples to probe on a shape. demands is a set drawn from
    {inside, volume, exact}; an empty set means the scheme is only exercised'''
    lm = shape.gauss_max
    out = []
    nd = shape.ref.ndims
    bmax, umax, vmax = (5, 4, 2) if tier == 'quick' else (8, 6, 3)
    if nd >= 3:
        bmax, umax, vmax = min(bmax, 4), min(umax, 3), min(vmax, 2)
    for d in range(0, lm + 1):
        out.append(('gauss', d, {'inside', 'volume', 'exact'}))
    plain = shape.kind in ('simplex', 'tensor')
    for d in range(2, bmax + 1):
        out.append(('bezier', d, {'inside', 'volume'}))
    for d in range(1, umax + 1):
        out.append(('uniform', d, {'inside', 'volume'}))
    for d in range(0, vmax + 1):
        # on trimmed / refined references 'vertex' deliberately returns the points of the untrimmed
        # base element (they carry the level set samples), so nothing is demanded there
        out.append(('vertex', d, {'inside', 'volume'} if plain else set()))
    out.append(('vtk', None, {'inside'} if plain else set()))
    out.append(('_centroid', None, {'inside', 'volume'} if plain else {'volume'}))
    if shape.kind == 'tensor' and len(shape.factors) == 2:
        n1, n2 = shape.factors
        m1 = {1: min(lm, 5), 2: TRI_MAX, 3: TET_MAX}[n1]
        m2 = {1: min(lm, 5), 2: TRI_MAX, 3: TET_MAX}[n2]
        for d1 in range(0, m1 + 1):
            for d2 in range(0, m2 + 1):
                if d1 != d2:
                    out.append(('gauss', (d1, d2), {'inside', 'volume', 'exact'}))
        for s1, s2 in itertools.product(['gauss', 'bezier', 'uniform', 'vertex'], repeat=2):
            if s1 != s2:
                out.append((s1 + '*' + s2, (2, 3), {'inside', 'volume'}))
    return out


def getpoints(ref, scheme, degree):
    with warnings.catch_warnings(record=True) as W:
        warnings.simplefilter('always')
        with numpy.errstate(all='ignore'):
            P = ref.getpoints(scheme, degree)
            coords = numpy.array(P.coords, dtype=float)
            weights = numpy.array(P.weights, dtype=float) if hasattr(P, 'weights') else None
    return P, coords, weights, [str(w.message) for w in W]


def exact_sum(coords, weights, exps):
    'sum_k w_k prod_i c_ki^e_i in rational arithmetic'
    tot = Fr(0)
    for row, w in zip(coords, weights):
        t = Fr(float(w))
        for c, e in zip(row, exps):
            if e:
                t *= Fr(float(c))**e
        tot += t
    return tot


def float_sum(coords, weights, exps):
    terms = weights.copy()
    for i, e in enumerate(exps):
        if e:
            terms = terms * coords[:, i]**e
    return math.fsum(terms)


def degree_per_axis(shape, degree):
    'for a tuple degree on a two-factor tensor: list of (slice, degree)'
    n1, n2 = shape.factors
    return [(slice(0, n1), degree[0]), (slice(n1, n1 + n2), degree[1])]


def check_scheme(shape, scheme, degree, demands):
    '''probe one (reference, scheme, degree). returns (outcome, failures, nmonomials);
    failures = list of (kind, message)'''
    ref = shape.ref
    nd = ref.ndims
    fails = []
    outcome_note = 'ok'
    try:
        P, coords, weights, warns = getpoints(ref, scheme, degree)
    except Exception as e:
        if 'exact' in demands:
            return 'raised', [('gauss-raised', 'getpoints({!r}, {}) raised {!r}'.format(scheme, degree, e))], 0
        return 'rejected:' + type(e).__name__, [], 0
    if coords.ndim != 2 or coords.shape[1] != nd or P.npoints != len(coords) or (weights is not None and weights.shape != (len(coords),)):
        return 'shape', [('shape', 'coords {} weights {} npoints {} ndims {}'.format(coords.shape, None if weights is None else weights.shape, P.npoints, nd))], 0
    if not numpy.isfinite(coords).all() or (weights is not None and not numpy.isfinite(weights).all()):
        if demands:
            fails.append(('nonfinite', 'non-finite coordinates or weights'))
        return 'nonfinite', fails, 0
    if 'exact' in demands and any('inexact' in w for w in warns):
        fails.append(('gauss-warned', 'getpoints(gauss, {}) warns {!r} inside the documented range'.format(degree, warns[0])))
    if 'inside' in demands:
        for k, p in enumerate(coords):
            try:
                isin = ref.inside(p, EPS_IN)
            except numpy.linalg.LinAlgError:
                # reference.inside inverts every simplex of a mosaic and raises on a zero-volume sliver;
                # that is a defect of inside(), not of the quadrature: fall back on the geometric test
                isin = True
                outcome_note = 'inside-raised'
            if not isin:
                fails.append(('outside', 'point {} = {} of {} {} is not inside the reference (reference.inside)'.format(k, p.tolist(), scheme, degree)))
                break
            if shape.inside is not None and not shape.inside(p):
                fails.append(('outside-geom', 'point {} = {} of {} {} lies outside the element'.format(k, p.tolist(), scheme, degree)))
                break
    nmono = 0
    if weights is not None and shape.exact is not None:
        exactarith = shape.kind == 'simplex'
        tol = (TOL_LINE if nd == 1 else TOL_TABLE) if exactarith else TOL_FLOAT
        summ = (lambda e: exact_sum(coords, weights, e)) if exactarith else (lambda e: Fr(float_sum(coords, weights, e)))
        if 'volume' in demands:
            vol = shape.exact((0,) * nd)
            got = summ((0,) * nd)
            nmono += 1
            if abs(float(got - vol)) > tol:
                fails.append(('volume', 'weights of {} {} sum to {!r}, the volume is {!r} (error {:.2e})'.format(scheme, degree, float(got), float(vol), float(got - vol))))
        if 'exact' in demands:
            if isinstance(degree, tuple):
                axes = degree_per_axis(shape, degree)
                monos = [e for e in itertools.product(range(max(degree) + 1), repeat=nd) if all(sum(e[s]) <= d for s, d in axes)]
            else:
                monos = monomials(nd, degree)
            for e in monos:
                if not any(e):
                    continue
                nmono += 1
                want = shape.exact(e)
                got = summ(e)
                if abs(float(got - want)) > tol:
                    fails.append(('inexact', 'gauss {} integrates x^{} to {!r}, exact {!r} (error {:.2e})'.format(degree, list(e), float(got), float(want), float(got - want))))
                    break
    return outcome_note, fails, nmono


def check_volume_attr(shape):
    if shape.exact is None:
        return []
    vol = float(shape.exact((0,) * shape.ref.ndims))
    got = float(shape.ref.volume)
    if abs(got - vol) > TOL_FLOAT:
        return [('volume-attr', 'reference.volume = {!r}, exact volume {!r}'.format(got, vol))]
    return []


def check_children_sum(shape, degree):
    '''the children of a full reference, each with its own gauss rule mapped by the child transform,
    integrate every monomial of total degree <= degree to the exact integral over the parent'''
    from nutils import points
    ref = shape.ref
    nd = ref.ndims
    parts = [points.TransformPoints(cref.getpoints('gauss', degree), ctrans) for ctrans, cref in ref.children if cref]
    coords = numpy.concatenate([numpy.asarray(p.coords) for p in parts])
    weights = numpy.concatenate([numpy.asarray(p.weights) for p in parts])
    n = 0
    for e in monomials(nd, degree):
        n += 1
        want = shape.exact(e)
        got = float_sum(coords, weights, e)
        if abs(got - float(want)) > TOL_FLOAT:
            return [('children-sum', 'children of {} with gauss {} integrate x^{} to {!r}, parent integral {!r}'.format(ref, degree, list(e), got, float(want)))], n
    return [], n


def check_complement(spec, lmax, degree):
    'trim(l) and trim(-l) together integrate every monomial like the untrimmed base'
    base = _base(spec[1], lmax)
    pos = build(spec, lmax)
    neg = build(['trim', spec[1], [-x for x in spec[2]], spec[3]], lmax)
    if pos is None or neg is None:
        return 'skipped', [], 0
    nd = base.ref.ndims
    sets = []
    for sh in (pos, neg):
        if not sh.ref:
            continue
        P, coords, weights, warns = getpoints(sh.ref, 'gauss', degree)
        for k, p in enumerate(coords):
            if not sh.inside(p):
                return 'ok', [('outside-geom', 'gauss {} point {} = {} lies on the wrong side of the cut'.format(degree, k, p.tolist()))], 0
        sets.append((coords, weights))
    if not sets:
        return 'empty', [('complement', 'both sides of the cut are empty')], 0
    coords = numpy.concatenate([c for c, w in sets])
    weights = numpy.concatenate([w for c, w in sets])
    n = 0
    for e in monomials(nd, degree):
        n += 1
        want = float(base.exact(e))
        got = float_sum(coords, weights, e)
        if abs(got - want) > TOL_FLOAT:
            return 'ok', [('complement', 'the two sides of the cut integrate x^{} to {!r} with gauss {}, the untrimmed element gives {!r}'.format(list(e), got, degree, want))], n
    return 'ok', [], n
