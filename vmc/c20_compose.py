'''C20 helper: compositions of depth 2, numeric (all dimension triples) and on function arrays.'''

import operator, itertools, json
import numpy
from . import core
from . import c20_model as M
from . import c20_dispatch as D

# name -> (arity, callable, rule, params)
OPS = {
    'neg': (1, operator.neg, 'same', {}),
    'abs': (1, numpy.absolute, 'same', {}),
    'sqrt': (1, numpy.sqrt, 'sqrt', {}),
    'sum': (1, numpy.sum, 'same', {}),
    'max': (1, numpy.max, 'same', {}),
    'sq': (1, lambda a: a**2, 'pow', {'exponent': 2}),
    'inv': (1, lambda a: a**-1, 'pow', {'exponent': -1}),
    'root': (1, lambda a: numpy.power(a, .5), 'pow', {'exponent': .5}),
    'isfinite': (1, numpy.isfinite, 'drop', {}),
    'item0': (1, lambda a: a[0], 'same', {}),
    'add': (2, operator.add, 'add', {}),
    'sub': (2, operator.sub, 'add', {}),
    'mul': (2, operator.mul, 'mul', {}),
    'truediv': (2, operator.truediv, 'div', {}),
    'mod': (2, operator.mod, 'add', {}),
    'hypot': (2, numpy.hypot, 'add', {}),
    'maximum': (2, numpy.maximum, 'add', {}),
    'multiply': (2, numpy.multiply, 'mul', {}),
    'divide': (2, numpy.divide, 'div', {}),
    'lt': (2, operator.lt, 'cmp', {}),
    'equal': (2, numpy.equal, 'cmp', {}),
    'matmul': (2, operator.matmul, 'mul', {}),
    'stack': (2, lambda a, b: numpy.stack([a, b]), 'stack', {}),
}

_T = D.T('depth2', [], None, 'same')


def _rule(name, ds):
    ar, fn, rule, params = OPS[name]
    return M.clean(M.RULES[rule](list(ds), **params))


def case_numeric(w):
    '''w: outer, inner, pos (0: inner result is the first operand of outer, 1: the second), kind, dims of the leaves.
    returns status, detail like c20_dispatch.run_case'''
    f = D.fx()
    outer, inner, pos, kind = w['outer'], w['inner'], w['pos'], w['kind']
    dims = [M.dec(d) for d in w['dims']]
    if not any(dims):
        return 'trivial', None
    ari, fi = OPS[inner][:2]
    aro, fo = OPS[outer][:2]
    try:
        di = _rule(inner, dims[:ari])
    except M.Reject:
        return 'pruned', None
    raws = [f.raw(kind, i) for i in range(len(dims))]
    qs = [D.wrap(d, f.raw(kind, i)) for i, d in enumerate(dims)]
    try:
        ri = fi(*raws[:ari])
        rargs = [ri] + raws[ari:] if pos == 0 else raws[ari:] + [ri]
        ref = D.norm(fo(*rargs), _T)
    except Exception:
        return 'undefined', None
    oargs = [di] + dims[ari:] if pos == 0 else dims[ari:] + [di]
    try:
        do = _rule(outer, oargs)
        reject = None
    except M.Reject as e:
        reject = str(e)
    try:
        qi = fi(*qs[:ari])
    except Exception as e:
        return 'VIOLATION', ('raised:' + type(e).__name__ + ':inner', 'valid inner call {} raised {!r}'.format(inner, e)[:300], inner)
    v = D.judge_value(qi, di, D.norm(ri, _T), _T)
    if v:
        return 'VIOLATION', (v[0] + ':inner', 'inner {}: {}'.format(inner, v[1]), inner)
    qargs = [qi] + qs[ari:] if pos == 0 else qs[ari:] + [qi]
    if not any(D.has_quantity(a) for a in qargs):
        return 'trivial', None
    try:
        r = fo(*qargs)
    except Exception as e:
        if reject:
            return 'reject-ok', type(e).__name__
        return 'VIOLATION', ('raised:' + type(e).__name__, 'dimensionally valid composition raised {!r}'.format(e)[:300])
    if reject:
        return 'VIOLATION', ('accepted-mismatch', '{}; result {!r}'.format(reject, r)[:300])
    v = D.judge_value(r, do, ref, _T)
    if v:
        return 'VIOLATION', v
    return 'ok', M.dkey(do)


def numeric_cases(outer):
    aro = OPS[outer][0]
    for inner, (ari, *_) in OPS.items():
        nleaves = ari + aro - 1
        for pos in ((0, 1) if aro == 2 else (0,)):
            for kind in ('s', 'v'):
                for dims in itertools.product(M.DIMS7, repeat=nleaves):
                    yield {'part': 'depth2', 'outer': outer, 'inner': inner, 'pos': pos, 'kind': kind, 'dims': [M.enc(d) for d in dims]}


# ------------------------------------------------------------------ function arrays

def _fn():
    from nutils import function
    return function


# leaves: g0 (dims[0]), g1 (dims[1]), x (dims[2]); inner: (callable(g0,g1,x), rule on (d0,d1,dx))
INNER = {
    'mul': (lambda g0, g1, x: g0 * g1, lambda d0, d1, dx: M.dmul(d0, d1)),
    'div': (lambda g0, g1, x: g0 / g1, lambda d0, d1, dx: M.ddiv(d0, d1)),
    'add': (lambda g0, g1, x: g0 + g1, lambda d0, d1, dx: M.rule_add([d0, d1])),
    'sqrt': (lambda g0, g1, x: numpy.sqrt(g0), lambda d0, d1, dx: M.dpow(d0, M.F(1, 2))),
    'sq': (lambda g0, g1, x: g0**2, lambda d0, d1, dx: M.dpow(d0, 2)),
    'grad': (lambda g0, g1, x: _fn().grad(g0, x), lambda d0, d1, dx: M.ddiv(d0, dx)),
}
OUTER = {
    'grad': (lambda y, x, f: _fn().grad(y, x), lambda dy, dx: M.ddiv(dy, dx), 'smp'),
    'laplace': (lambda y, x, f: _fn().laplace(y, x), lambda dy, dx: M.ddiv(dy, M.dpow(dx, 2)), 'smp'),
    'integrate-J': (lambda y, x, f: f.smp.integrate(y * _fn().J(x, 2)), lambda dy, dx: M.dmul(dy, M.dpow(dx, 2)), 'smp'),
    'surfgrad': (lambda y, x, f: _fn().surfgrad(y, x), lambda dy, dx: M.ddiv(dy, dx), 'bnd'),
}


def case_function(w):
    f = D.fx()
    d0, d1, dx = [M.dec(d) for d in w['dims']]
    if not (d0 or d1 or dx):
        return 'trivial', None
    fi, ri = INNER[w['inner']]
    fo, ro, smp = OUTER[w['outer']]
    try:
        di = M.clean(ri(d0, d1, dx))
    except M.Reject:
        return 'pruned', None
    do = M.clean(ro(di, dx))
    t = D.T('depth2f', [], None, 'same', smp=smp)
    try:
        r = fo(fi(D.wrap(d0, f.u[0]), D.wrap(d1, f.u[1]), D.wrap(dx, f.x)), D.wrap(dx, f.x), f)
    except Exception as e:
        return 'VIOLATION', ('raised:' + type(e).__name__, 'dimensionally valid composition raised {!r}'.format(e)[:300])
    if not w['value']:
        rd, rv = D.split(r)
        if rd != do:
            return 'VIOLATION', ('wrong-dimension', 'result has dimension [{}], the operand exponents dictate [{}]'.format(M.dkey(rd), M.dkey(do)))
        return 'ok', M.dkey(do)
    ckey = ('depth2f', w['outer'], w['inner'])
    if ckey not in f.refcache:
        f.refcache[ckey] = D.norm(fo(fi(f.u[0], f.u[1], f.x), f.x, f), t)
    v = D.judge_value(r, do, f.refcache[ckey], t)
    if v:
        return 'VIOLATION', v
    return 'ok', M.dkey(do)


def function_cases(outer, inner, tier):
    for dims in itertools.product(M.DIMS7, repeat=3):
        value = tier == 'thorough' or all(d in M.DIMS3 for d in dims)
        yield {'part': 'depth2f', 'outer': outer, 'inner': inner, 'dims': [M.enc(d) for d in dims], 'value': value}
