'''Controlled scheduler for real PROCESSES (stateless model checking with iterative preemption bounding).

Logical workers are forked child processes of the (single threaded) controller.  Each child runs its body under a
`sys.settrace` function restricted to the code objects under test; at every line event of those code objects, at every
explicit `point(tag)` call and at every (shimmed) lock acquisition it reports `(tag, blocked)` over its pipe and waits
for the controller's `go`.  Exactly one worker runs at any time, so the controller owns the interleaving; the kernel
still arbitrates the real locks (flock / multiprocessing.Lock) - a lock point reports `blocked` by a non-acquiring
probe (try-acquire + release), which is race free because nobody else runs meanwhile.

`explore(harness, bound)` enumerates every schedule with at most `bound` preemptions: `run(prefix)` replays the
recorded choices (a divergence while replaying is a hard error), then takes the default choice (keep running the
current worker, else the lowest id) at every later point; every alternative at every point whose preemption cost stays
within the bound is explored recursively.  Executions always run to completion.  "No enabled worker but not all done"
is a deadlock.
'''

import os, sys, time, pickle, struct, signal, select, traceback, errno

_WORKER = None   # set in a scheduled child: (rfd, wfd)


class ReplayDivergence(Exception):
    pass


class Deadlock(Exception):
    pass


def _send(fd, obj):
    b = pickle.dumps(obj)
    os.write(fd, struct.pack('<I', len(b)) + b)


def _recv(fd, timeout=None):
    if timeout is not None:
        r, _, _ = select.select([fd], [], [], timeout)
        if not r:
            raise TimeoutError
    hdr = b''
    while len(hdr) < 4:
        c = os.read(fd, 4 - len(hdr))
        if not c:
            raise EOFError
        hdr += c
    n, = struct.unpack('<I', hdr)
    buf = b''
    while len(buf) < n:
        c = os.read(fd, n - len(buf))
        if not c:
            raise EOFError
        buf += c
    return pickle.loads(buf)


LATE_PIPES = {}   # worker id -> (read fd, write fd) for workers that the code under test forks itself


def _recv_state(fd, timeout):
    'a worker that exits without reporting (os._exit inside the code under test) closes its pipe: state X'
    try:
        return _recv(fd, timeout)
    except EOFError:
        return ('X',)


def adopt_late(k):
    'called in a freshly forked child of a scheduled worker: become logical worker k'
    global _WORKER
    old = _WORKER
    _WORKER = LATE_PIPES[k]
    for j, fds in LATE_PIPES.items():
        if j != k:
            for fd in fds:
                try:
                    os.close(fd)
                except OSError:
                    pass
    if old:
        for fd in old:
            try:
                os.close(fd)
            except OSError:
                pass
    point(('start', k))


def release_late(k):
    'called in the parent after forking late worker k: drop our copies of its pipe ends, then report the fork'
    for fd in LATE_PIPES.pop(k, ()):
        try:
            os.close(fd)
        except OSError:
            pass
    point(('forked', k))


def point(tag, blocked=None):
    '''scheduling point inside a worker; `blocked` is None (always enabled) or a callable that says whether proceeding would block.
    A no-op outside a scheduled worker, so harness bodies can also run free.'''
    if _WORKER is None:
        return
    rfd, wfd = _WORKER
    # tracing must not recurse into the scheduler itself
    while True:
        _send(wfd, ('P', tag, bool(blocked()) if blocked else False))
        cmd = _recv(rfd)
        if cmd == 'go':
            return
        if cmd != 'probe':
            os._exit(97)


def make_tracer(match):
    '''sys.settrace function: line events of frames whose code object satisfies match(code) are scheduling points'''
    def local(frame, event, arg):
        if event == 'line':
            point(('line', frame.f_code.co_name, frame.f_lineno))
        return local

    def tracer(frame, event, arg):
        if event == 'call' and match(frame.f_code):
            return local
        return None
    return tracer


def flock_shim(f):
    'replacement for nutils.cache._lock_file: the real flock behind a visible, non-blocking acquisition point'
    import fcntl

    def would_block():
        try:
            fcntl.flock(f, fcntl.LOCK_EX | fcntl.LOCK_NB)
        except BlockingIOError:
            return True
        fcntl.flock(f, fcntl.LOCK_UN)
        return False
    while True:
        point(('lock', 'flock'), would_block)
        try:
            fcntl.flock(f, fcntl.LOCK_EX | fcntl.LOCK_NB)
            return
        except BlockingIOError:
            continue   # cannot happen under the controller; harmless when running free


class LockShim:
    'wraps a real multiprocessing.Lock: acquisition is a visible point that reports whether it would block'

    def __init__(self, lock, name='lock'):
        self._lock = lock
        self._name = name

    def _would_block(self):
        if self._lock.acquire(block=False):
            self._lock.release()
            return False
        return True

    def acquire(self, block=True, timeout=None):
        while True:
            point(('lock', self._name), self._would_block)
            if self._lock.acquire(block=False):
                return True

    def release(self):
        self._lock.release()
        point(('unlock', self._name))

    def __enter__(self):
        self.acquire()
        return self

    def __exit__(self, *exc):
        self.release()


class Execution:
    def __init__(self):
        self.points = []      # per decision: dict(enabled=[ids], chosen=id, running=id or None, tags={id: tag})
        self.choices = []     # index into enabled
        self.trace = []       # (worker, tag) in execution order
        self.results = {}     # worker -> result or ('error', text)
        self.deadlock = None
        self.preemptions = 0

    def preemptions_before(self, i):
        n = 0
        for p in self.points[:i]:
            n += p['preempt']
        return n


def run(*args, **kwargs):
    '''one execution (see _run), under the machine-wide fork token (core.fork_token: concurrent forking is slower than serial forking here)'''
    from . import core
    with core.fork_token():
        return _run(*args, **kwargs)


def _run(bodies, prefix, trace_match=None, setup=None, teardown=None, timeout=60., before_fork=None, late_workers=0):
    '''one execution: fork len(bodies) workers, follow `prefix` (list of choice indices), then default choices.
    bodies: list of callables body(ctx) -> picklable result, run in the child; ctx is what setup() returned.'''
    global _WORKER
    ex = Execution()
    ctx = setup() if setup else None
    if before_fork:
        before_fork(ctx)
    workers = {}
    late = {}
    for k in range(len(bodies), len(bodies) + late_workers):
        c2p_r, c2p_w = os.pipe()
        p2c_r, p2c_w = os.pipe()
        late[k] = {'r': c2p_r, 'w': p2c_w, 'child_fds': (p2c_r, c2p_w)}
    LATE_PIPES.clear()
    LATE_PIPES.update({k: v['child_fds'] for k, v in late.items()})
    try:
        for i, body in enumerate(bodies):
            c2p_r, c2p_w = os.pipe()
            p2c_r, p2c_w = os.pipe()
            pid = os.fork()
            if pid == 0:
                try:
                    os.close(c2p_r); os.close(p2c_w)
                    for w in list(workers.values()) + list(late.values()):
                        try:
                            os.close(w['r']); os.close(w['w'])
                        except OSError:
                            pass
                    _WORKER = (p2c_r, c2p_w)
                    signal.signal(signal.SIGINT, signal.SIG_DFL)
                    point(('start', i))
                    if trace_match:
                        sys.settrace(make_tracer(trace_match))
                    try:
                        result = body(ctx)
                        sys.settrace(None)
                        _send(c2p_w, ('D', result))
                    except BaseException as e:
                        sys.settrace(None)
                        _send(c2p_w, ('E', '{}: {}'.format(type(e).__name__, e), traceback.format_exc()[-1500:]))
                finally:
                    os._exit(0)
            os.close(c2p_w); os.close(p2c_r)
            workers[i] = {'pid': pid, 'r': c2p_r, 'w': p2c_w, 'state': None}
        for v in late.values():   # the controller keeps only its own ends of the late pipes
            for fd in v['child_fds']:
                os.close(fd)
        # every worker reports its first point
        for i, w in workers.items():
            w['state'] = _recv_state(w['r'], timeout)

        def activate_late():
            'a worker that reports ("forked", k) has just created late worker k: wait for its first report'
            again = True
            while again:
                again = False
                for i, w in list(workers.items()):
                    st = w['state']
                    if st[0] == 'P' and st[1][0] == 'forked' and st[1][1] in late:
                        k = st[1][1]
                        lw = late.pop(k)
                        workers[k] = {'pid': None, 'r': lw['r'], 'w': lw['w'], 'state': _recv_state(lw['r'], timeout)}
                        again = True
        activate_late()
        running = None
        step = 0
        while True:
            alive = [i for i, w in workers.items() if w['state'][0] == 'P']
            if not alive:
                break
            # re-probe blocked workers: their flag may be stale
            for i in alive:
                w = workers[i]
                if w['state'][2]:
                    _send(w['w'], 'probe')
                    w['state'] = _recv_state(w['r'], timeout)
            enabled = [i for i in alive if not workers[i]['state'][2]]
            if not enabled:
                # a blocked probe may depend on something the kernel is still finishing (a process that has closed its pipe but is not
                # yet waitable, a lock being released at exit): re-probe for a grace period before declaring a deadlock
                for attempt in range(400):
                    time.sleep(.005)
                    for i in alive:
                        w = workers[i]
                        _send(w['w'], 'probe')
                        w['state'] = _recv_state(w['r'], timeout)
                    alive = [i for i in alive if workers[i]['state'][0] == 'P']
                    enabled = [i for i in alive if not workers[i]['state'][2]]
                    if enabled or not alive:
                        break
                if not alive:
                    continue
            if not enabled:
                ex.deadlock = {i: workers[i]['state'][1] for i in alive}
                break
            # canonical order: the running worker first if still enabled, then ascending ids
            order = ([running] if running in enabled else []) + [i for i in sorted(enabled) if i != running]
            if step < len(prefix):
                c = prefix[step]
                if c >= len(order):
                    raise ReplayDivergence('step {}: choice {} but only {} enabled'.format(step, c, len(order)))
            else:
                c = 0
            chosen = order[c]
            preempt = 1 if (running in enabled and chosen != running) else 0
            ex.points.append({'enabled': order, 'chosen': chosen, 'running': running, 'preempt': preempt, 'tag': workers[chosen]['state'][1]})
            ex.choices.append(c)
            ex.trace.append((chosen, workers[chosen]['state'][1]))
            ex.preemptions += preempt
            _send(workers[chosen]['w'], 'go')
            workers[chosen]['state'] = _recv_state(workers[chosen]['r'], timeout)
            activate_late()
            running = chosen
            step += 1
        for i, w in workers.items():
            st = w['state']
            if st[0] == 'D':
                ex.results[i] = st[1]
            elif st[0] == 'E':
                ex.results[i] = ('error', st[1], st[2])
            elif st[0] == 'X':
                ex.results[i] = ('exited',)
            else:
                ex.results[i] = ('stuck', st[1])
        if step < len(prefix):
            raise ReplayDivergence('execution ended after {} steps but the prefix has {}'.format(step, len(prefix)))
    finally:
        for w in list(workers.values()) + list(late.values()):
            if w.get('pid'):
                try:
                    os.kill(w['pid'], signal.SIGKILL)
                except OSError:
                    pass
                try:
                    os.waitpid(w['pid'], 0)
                except OSError:
                    pass
            for fd in (w['r'], w['w']):
                try:
                    os.close(fd)
                except OSError:
                    pass
        ex.ctx = ctx
        if teardown:
            ex.after = teardown(ctx)
    return ex


def explore(run_one, bound, on_execution, max_executions=None, part=None, split_depth=2, symmetric=False):
    '''iterative preemption bounding: run_one(prefix) -> Execution. on_execution(ex) is called for every execution (return False to stop).
    Returns number of executions; raises nothing on property failure (the callback records it).
    part=(k, n) splits the exploration over n shards.  Every shard walks the top of the execution tree (the default schedule and all
    executions with fewer than `split_depth` deviations from it) in the same deterministic order and numbers what it meets; execution
    number c of the top and subtree number c at depth `split_depth` belong to shard c mod n.  The union of the n parts is exactly the
    set of executions explored without `part`; executions of the top that belong to another shard are run (to enumerate their
    children) but neither counted nor judged here.
    symmetric=True (only for identical worker bodies on identical inputs): the very first scheduling decision (which worker moves first)
    is not varied - an execution that starts with another worker is the mirror image, under renaming of the workers, of one that starts
    with worker 0 and the same number of preemptions.'''
    count = 0
    stack = [([], 0)]
    c = 0
    while stack:
        prefix, depth = stack.pop()
        top = part is not None and depth < split_depth
        ex = run_one(prefix)
        mine = True
        if top:
            mine = c % part[1] == part[0]
            c += 1
        if mine:
            count += 1
            if on_execution(ex) is False:
                return count
            if max_executions and count >= max_executions:
                return -count
        for i in range(len(prefix), len(ex.points)):
            p = ex.points[i]
            before = ex.preemptions_before(i)
            for alt in range(1, len(p['enabled'])):
                cost = before + (1 if p['running'] in p['enabled'] else 0)
                if cost > bound:
                    continue
                if symmetric and i == 0:
                    continue
                if top and depth + 1 == split_depth:
                    c += 1
                    if (c - 1) % part[1] != part[0]:
                        continue
                stack.append((ex.choices[:i] + [alt], depth + 1))
    return count
