'''C20 helper: unit strings generated from the documented grammars (nutils.SI and the
older nutils.unit), Units.__setattr__, format / dumps round trips.'''

import itertools, re
from fractions import Fraction as F
from . import core
from . import c20_model as M
from . import c20_dispatch as D

REL = 1e-12


def close(a, b, rel=REL):
    if b == 0 or a == 0:
        return abs(a - b) <= 1e-300
    return abs(a - b) <= rel * abs(b)


# ------------------------------------------------------------------ nutils.SI

NUMS1 = ['', '2', '2.5', '-1.25', '.5', '+3', '1000', '0.001', '0']
POWERS1 = ['', '1', '2', '3', '_2', '3_2', '2_3', '_3', '0']
ATOMS_SMALL = ['m', 's', 'kg', 'min', 'mm', 'in', 'T', 'h', 'ha', 'μN']
ATOMS_LARGE = ATOMS_SMALL + ['N', 'μm', 'mol', 'g', 'ms', 'mT', 'Tm', 'hh', 'hha', 'cd', 'ccd', 'mmol', 'Pa', 'hPa', 'au', 'Da', 'day', 'dday', 'Gy',
                             'kat', 'kN', 'Ω', 'L', 'eV', 'mmin', 'A', 'K', 'Hz', 't', 'dm', 'km']
ATOMS_MEDIUM = ATOMS_LARGE[:24]
INVALID = ['kin', 'dam', 'kkm', 'xyz', 'm^2', 'km2x', 'μ', 'k', '1e3m', 'm s', 'mkg', 'minn', 'inch', 'M']


def si_keys():
    from nutils import SI
    return list(SI.units)


def atomval(atom):
    r = M.si_readings(atom)
    if not r:
        raise core.HarnessError('unit {!r} is defined by nutils.SI but unknown to the C20 model table: add it'.format(atom))
    return r[0][1], r[0][2]


def competing(keys):
    'keys with more than one lexical reading (prefix + another key, or a bare model unit whose first letter is a prefix and whose tail is a key)'
    ks = set(keys)
    return sorted(k for k in keys if len(k) > 1 and k[0] in M.PREFIX and k[1:] in ks and k in M.SI_UNITS)


def decimals(num):
    return len(num.partition('.')[2])


def check_si_term(term, full=None):
    '''term = [num0, [[op, fnum, atom, power], ...]].  returns None or (kind, msg)'''
    from nutils import SI
    num0, factors = term
    if full is None:
        full = len(factors) <= 1   # the complete battery for single factors, the essential one (parse, one foreign Dimension, q/unit, format, parse back) beyond
    s = M.si_term_string(num0, factors)
    value, dims = M.si_term_model(num0, factors, atomval)
    try:
        q = SI.parse(s)
    except Exception as e:
        return 'parse-raised', 'parse({!r}) raised {!r}'.format(s, e)
    qd, qv = D.split(q)
    if qd != dims:
        return 'parse-dimension', 'parse({!r}) has dimension [{}], the grammar says [{}]'.format(s, M.dkey(qd), M.dkey(dims))
    if not isinstance(qv, float) or not close(qv, value):
        return 'parse-value', 'parse({!r}) = {!r} in reference units, the grammar says {!r}'.format(s, qv, value)
    if not dims:
        try:
            if SI.Dimensionless(s) != q:
                return 'dimension-call', 'Dimensionless({!r}) != parse'.format(s)
        except Exception as e:
            return 'dimension-call', 'Dimensionless({!r}) raised {!r}'.format(s, e)
        return None
    T = type(q)
    # the matching Dimension accepts the string, others reject it
    try:
        q2 = T(s)
    except Exception as e:
        return 'dimension-call', '{}({!r}) raised {!r}'.format(T.__name__, s, e)
    if type(q2) is not T or q2.unwrap() != qv:
        return 'dimension-call', '{}({!r}) = {!r}'.format(T.__name__, s, q2)
    for other in (SI.Length, SI.Time, SI.Dimensionless, SI.Mass / SI.Time) if full else (SI.Length if T is not SI.Length else SI.Time,):
        if other is T:
            continue
        try:
            r = other(s)
        except SI.DimensionError:
            continue
        except Exception as e:
            return 'dimension-call', '{}({!r}) raised {!r} instead of DimensionError'.format(other.__name__, s, e)
        return 'dimension-call-accepted', '{}({!r}) accepted a quantity of dimension {}: {!r}'.format(other.__name__, s, T.__name__, r)
    if full and T.__stringly_loads__(T.__stringly_dumps__(q)) != q:
        return 'stringly', 'stringly round trip of {!r} fails'.format(s)
    # round trip: the unit part is everything after the leading number, provided the first factor carries no number of its own
    if factors and factors[0][1] == '':
        unit = M.si_term_string('', factors)
        n = float(num0) if num0 else 1.
        try:
            v = q / unit
        except Exception as e:
            return 'unit-division', 'parse({!r}) / {!r} raised {!r}'.format(s, unit, e)
        if not isinstance(v, float) or not close(v, n, 1e-9):
            return 'unit-division', 'parse({!r}) / {!r} = {!r}, expected {!r}'.format(s, unit, v, n)
        for d in sorted({max(decimals(num0), 1), 3}) if full else (max(decimals(num0), 1),):
            if d < decimals(num0):
                continue
            for width in ('', '12') if full else ('',):
                spec = '{}.{}{}'.format(width, d, unit)
                try:
                    text = format(q, spec)
                except Exception as e:
                    return 'format-raised', 'format(parse({!r}), {!r}) raised {!r}'.format(s, spec, e)
                want = format(n, '{}.{}f'.format(width, d)) + unit
                if text != want:
                    return 'format', 'format(parse({!r}), {!r}) = {!r}, expected {!r}'.format(s, spec, text, want)
                if not width:
                    try:
                        back = SI.parse(text)
                    except Exception as e:
                        return 'roundtrip', 'parse({!r}) raised {!r}'.format(text, e)
                    if type(back) is not T or not close(back.unwrap(), qv, 1e-9):
                        return 'roundtrip', 'parse(format(q)) = {!r} != {!r}'.format(back, q)
    return None


def si1_terms():
    for atom in si_keys():
        for p in POWERS1:
            for n in NUMS1:
                yield [n, [['', '', atom, p]]]
            yield ['2', [['/', '', atom, p]]]
            yield ['', [['/', '.1', atom, p]]]


def si2_terms(atoms, powers=('', '2', '_2')):
    atoms = [a for a in atoms if a in set(si_keys())]
    for a0 in atoms:
        for p0 in powers:
            for a1 in atoms:
                for p1 in powers:
                    for op0 in ('', '/'):
                        for op1 in ('*', '/'):
                            for num0, f1 in (('2.5', ''), ('-4', '.1')):
                                yield [num0, [[op0, '', a0, p0], [op1, f1, a1, p1]]]


def si3_terms(atoms, powers=('', '2')):
    atoms = [a for a in atoms if a in set(si_keys())]
    fs = [(a, p) for a in atoms for p in powers]
    for (a0, p0) in fs:
        for (a1, p1) in fs:
            for (a2, p2) in fs:
                for op0 in ('', '/'):
                    for op1 in ('*', '/'):
                        for op2 in ('*', '/'):
                            for num0, f2 in (('', ''), ('2.5', '5')):
                                yield [num0, [[op0, '', a0, p0], [op1, '', a1, p1], [op2, f2, a2, p2]]]


def check_invalid(s):
    from nutils import SI
    try:
        q = SI.parse(s)
    except Exception:
        return None
    return 'accepted-invalid-unit', 'parse({!r}) accepted a string outside the unit table: {!r}'.format(s, q)


def check_table():
    'every key of SI.units against the model table; returns list of (kind, msg, key)'
    from nutils import SI
    out = []
    for k in si_keys():
        readings = M.si_readings(k)
        if not readings:
            raise core.HarnessError('unit {!r} is defined by nutils.SI but unknown to the C20 model table: add it'.format(k))
        qd, qv = D.split(SI.units[k])
        for kind, v, d in readings:
            if qd != d or not close(qv, v):
                out.append(('unit-table', 'units[{!r}] = {!r}, the {} reading is {} [{}]'.format(k, SI.units[k], kind, v, M.dkey(d)), k))
                break
    return out


# ------------------------------------------------------------------ Units.__setattr__

def setattr_candidates():
    keys = si_keys()
    alpha = sorted(set(''.join(keys)) | set('xqXQ'))
    seen = set()
    for c in itertools.chain(alpha, (a + b for a in alpha for b in alpha), keys, (k[1:] for k in keys if len(k) > 1)):
        if c and c not in seen:
            seen.add(c)
            yield c


def check_setattr(name, form):
    '''define unit `name` on a copy of the table; form: "q" Quantity, "s" string, "x" plain number'''
    from nutils import SI
    U = SI.Units()
    dict.update(U, SI.units)
    before = dict(U)
    collide = name in before or any(p + name in before for p in M.PREFIX)
    value = {'q': SI.Time.wrap(2.5), 's': '2500ms', 'x': 2.5}[form]
    saved = SI.units
    SI.units = U   # parse() resolves through the module global
    try:
        try:
            setattr(U, name, value)
        except Exception as e:
            if dict(U) != before:
                return 'rejected-but-modified', 'rejected definition of {!r} changed the table'.format(name)
            if form == 'x' or collide:
                return None
            return 'define-raised', 'defining the new unit {!r} raised {!r}'.format(name, e)
        if form == 'x':
            return 'accepted-plain-number', 'units.{} = 2.5 (no dimension) was accepted'.format(name)
        if collide:
            changed = sorted(k for k in before if U[k] is not before[k] and U[k] != before[k])
            return 'accepted-collision', 'units.{} was accepted although it collides; redefined: {}'.format(name, changed[:5])
        new = set(U) - set(before)
        if new != {name} | {p + name for p in M.PREFIX} or any(U[k] is not before[k] for k in before):
            return 'define-keys', 'defining {!r} added {}'.format(name, sorted(new)[:25])
        for p, sc in [('', 1.)] + sorted(M.PREFIX.items()):
            qd, qv = D.split(U[p + name])
            if qd != M.DT or not close(qv, 2.5 * sc):
                return 'define-value', 'units[{!r}] = {!r}'.format(p + name, U[p + name])
        if not re.search('[0-9_*/+.-]', name):
            for s, v, d in (('3' + name + '2', 3 * 2.5**2, M.dpow(M.DT, 2)), ('m/k' + name, 1 / 2500., M.DV)):
                try:
                    q = SI.parse(s)
                except Exception as e:
                    return 'define-parse', 'after defining {!r}, parse({!r}) raised {!r}'.format(name, s, e)
                qd, qv = D.split(q)
                if qd != M.clean(d) or not close(qv, v):
                    return 'define-parse', 'after defining {!r}, parse({!r}) = {!r}'.format(name, s, q)
        return None
    finally:
        SI.units = saved


# ------------------------------------------------------------------ nutils.unit (older module)

OLD_NUMS = ['', '2', '2.5', '0.001', '1000']
OLD_VALUES = [0., 1., 2.5, 1e-7, 1.5e-7, 1.5e22, 123456.789, 1e-4, 1e16, 0.30000000000000004, 3, 10**20]

_oldcache = {}


def old_setup(table):
    from nutils import unit
    if table not in _oldcache:
        defs = M.OLD_TABLES[table]
        _oldcache[table] = unit.create(**defs), M.old_resolve(defs)
    return _oldcache[table]


def old_words(table, small=False):
    defs = M.OLD_TABLES[table]
    names = sorted(defs)
    if small:
        base = [n for n in names if n in ('m', 's', 'g', 'min', 'in', 'mol', 'ol', 'cd', 'd', 'ha', 'a', 'N', 'h')]
        return base + [p + n for n in base[:6] for p in ('k', 'm', 'c', 'h')]
    return names + [p + n for n in names for p in M.PREFIX]


def check_old_term(table, term):
    U, resolved = old_setup(table)
    num, firstop, factors = term
    s = M.old_term_string(num, firstop, factors)
    value, dims = M.old_term_model(resolved, num, firstop, factors)
    try:
        v = U(s)
    except Exception as e:
        return 'old-parse-raised', 'unit({!r}) raised {!r}'.format(s, e)
    if not isinstance(v, float) or not close(float(v), value):
        return 'old-parse-value', 'unit({!r}) = {!r}, the grammar says {!r}'.format(s, float(v), value)
    unit = M.old_term_string('', '/' if firstop == '/' else '', factors)
    uval, udims = M.old_term_model(resolved, '', '/' if firstop == '/' else '', factors)
    try:
        B = U[unit]
        v2 = B(s)
    except Exception as e:
        return 'old-bound-raised', 'unit[{!r}]({!r}) raised {!r}'.format(unit, s, e)
    if not close(float(v2), value):
        return 'old-parse-value', 'unit[{!r}]({!r}) = {!r}'.format(unit, s, float(v2))
    # a string of another dimension must be rejected by the bound type
    full = len(factors) <= 1
    for other in ('m', 's', 'm/s', 'g2') if full else ('m/s',):
        od = M.old_parse_model(other, lambda w: M.old_word_model(resolved, w))[1]
        try:
            r = U[other](s)
        except ValueError:
            if od == dims:
                return 'old-rejected-valid', 'unit[{!r}]({!r}) was rejected'.format(other, s)
            continue
        if od != dims:
            return 'old-accepted-mismatch', 'unit[{!r}]({!r}) = {!r} although the dimensions differ'.format(other, s, float(r))
    # dumps / loads
    for x in OLD_VALUES if full else (2.5, 1.5e-7):
        try:
            txt = B.__stringly_dumps__(x)
        except Exception as e:
            return 'old-dumps-raised', 'unit[{!r}].__stringly_dumps__({!r}) raised {!r}'.format(unit, x, e)
        if not re.fullmatch(r'[0-9]+(\.[0-9]+)?', txt[:len(txt) - len(unit)]) or not txt.endswith(unit):
            return 'old-dumps-grammar', 'unit[{!r}].__stringly_dumps__({!r}) = {!r} is not <number><units>'.format(unit, x, txt)
        try:
            back = B.__stringly_loads__(txt)
        except Exception as e:
            return 'old-loads-raised', 'loads({!r}) raised {!r}'.format(txt, e)
        if not close(back, float(x), 1e-9):
            return 'old-roundtrip', 'loads(dumps({!r})) = {!r} via {!r}'.format(x, back, txt)
    if unit:
        txt = B.__stringly_dumps__(B.__stringly_loads__(s))
        if not close(B.__stringly_loads__(txt), value, 1e-9):
            return 'old-roundtrip', 'loads(dumps(loads({!r}))) = {!r}'.format(s, B.__stringly_loads__(txt))
    return None


def old_terms(table, nf, tier):
    words = old_words(table, small=nf > 1)
    powers = ['', '2', '3', '1', '0'] if nf == 1 else ['', '2']
    fs = [(w, p) for w in words for p in powers]
    if nf == 1:
        for w, p in fs:
            for num in OLD_NUMS:
                for firstop in ('', '/') + (('*',) if num else ()):
                    yield [num, firstop, [['', w, p]]]
    elif nf == 2:
        for (w0, p0) in fs:
            for (w1, p1) in fs:
                for firstop in ('', '/'):
                    for op in '*/':
                        for num in ('', '2.5'):
                            yield [num, firstop, [['', w0, p0], [op, w1, p1]]]
    else:
        fs = fs[::3] if tier == 'quick' else fs
        for (w0, p0) in fs:
            for (w1, p1) in fs:
                for (w2, p2) in fs:
                    for op1 in '*/':
                        for op2 in '*/':
                            yield ['2', '', [['', w0, p0], [op1, w1, p1], [op2, w2, p2]]]


def check_old_invalid(table):
    U, resolved = old_setup(table)
    out = []
    for s in ('xyz', 'kkm', '2furlong', 'mq'):
        try:
            v = U(s)
        except Exception:
            continue
        out.append(('old-accepted-invalid', 'unit({!r}) = {!r}'.format(s, float(v)), s))
    return out
