'''C17: the bounded-exhaustive value corpus, family by family.

corpus(tier) -> list of value records {'spec', 'key' (canon key), 'fam', 'kind'}
in a deterministic order, deduplicated on the canon key; blocks(tier) cuts it
into blocks of bounded size for the shards.
'''

import functools, itertools, json
import numpy
from .c17_corpus import (NONE, ELL, B, I, F, C, S, Y, TYPE, T, L, SET, FSET, D, ND, AD, FD, FMS, HF, INST, atomspec, ckey, canon, frepr)
from .c17_objects import O, mesh_ids


def python_equal_clash(specs):
    'True if two of the atom specs would be merged by a Python set/dict (==, same hash) although they are structurally different'
    vals = []
    for s in specs:
        c = canon(s)
        if c[0] in ('bool', 'int'):
            vals.append(complex(int(c[1])))
        elif c[0] == 'float':
            x = float(c[1])
            if x != x:
                continue
            vals.append(complex(x))
        elif c[0] == 'complex':
            z = complex(float(c[1]), float(c[2]))
            if z != z:
                continue
            vals.append(z)
        else:
            vals.append(('other', json.dumps(c)))
    return len(set(vals)) != len(vals)


# ------------------------------------------------------------------ atoms

def atoms():
    out = [NONE, ELL, B(True), B(False)]
    out += [I(n) for n in (0, 1, -1, 2, 127, 128, 255, 256, 2**31 - 1, 2**31, 2**63 - 1, 2**63, 2**64, -2**63, -2**63 - 1, 10**30)]
    out += [F(x) for x in (0., -0., 1., -1., 2., .5, .1, 1e300, 5e-324, float('inf'), float('-inf'), float('nan'), 2.**64, 1e22, 65504., 16777216., 1.0000000000000002, .3, .30000000000000004, 1e16, 1e16 + 2, 123456789., 123456788., 1e-7, 1.0000001e-7)]
    out += [C(0, 0), C(0, 1), C(1, 0), C(0, -1), C(1, 1), C(0., -0.), C(-0., 0.), C(float('nan'), 0), C(0, float('inf')), C(.5, .25), C(1.0000000000000002, 0), C(1, 1e-17)]
    out += [S(s) for s in ('', 'a', 'ab', 'b', 'ba', '1', '1.0', 'True', 'None', 'nan', '\x00', 'a\x00', 'a\x00b', '\xe9', '€', 'int', 'hashable_function', 'Direct')]
    out += [Y(b) for b in (b'', b'a', b'ab', b'\x00', b'1', '\xe9'.encode(), b'\xe9')]
    out += [TYPE(n) for n in ('bool', 'int', 'float', 'complex', 'str', 'bytes', 'tuple', 'list', 'dict', 'set', 'frozenset', 'NoneType', 'type', 'object',
                              'numpy.bool_', 'numpy.int64', 'numpy.float64', 'numpy.complex128', 'numpy.ndarray', 'K.Twin1', 'K.Twin2', 'K.FakeInt', 'K.Pt1', 'K.Pt2', 'K.Pq')]
    return out


# ------------------------------------------------------------------ containers

A8 = [NONE, B(True), I(1), F(1.), S('a'), S('ab'), S('b'), S('')]
V3 = [NONE, I(1), S('a')]


def _sets(kind, items, maxsize=2):
    out = [kind()]
    for n in range(1, maxsize + 1):
        for comb in itertools.combinations(items, n):
            if not python_equal_clash(comb):
                out.append(kind(*comb))
    return out


def _dicts(keys, vals, maxsize=2, kind=D):
    out = [kind()]
    for n in range(1, maxsize + 1):
        for ks in itertools.combinations(keys, n):
            if python_equal_clash(ks):
                continue
            for vs in itertools.product(vals, repeat=n):
                out.append(kind(*zip(ks, vs)))
    return out


def _seqs(kind, items, maxsize=2):
    out = []
    for n in range(maxsize + 1):
        for prod in itertools.product(items, repeat=n):
            out.append(kind(*prod))
    return out


def containers1(tier='quick'):
    n = 3 if tier == 'thorough' else 2
    return _seqs(T, A8, n) + _seqs(L, A8, n) + _sets(SET, A8, n) + _sets(FSET, A8, n) + _dicts(A8, V3)


def containers2(tier):
    A3 = [S('a'), S('b'), I(1)]
    inner_t = _seqs(T, A3)
    inner_l = _seqs(L, A3)
    inner_f = _sets(FSET, A3)
    inner_s = _sets(SET, A3)
    inner_d = _dicts(A3, [I(1), S('a')])
    atoms4 = [I(1), F(1.), S('a'), S('ab')]
    allitems = atoms4 + inner_t + inner_l + inner_f + inner_s + inner_d
    hashable = atoms4 + inner_t + inner_f
    out = _seqs(T, allitems) + _seqs(L, allitems) + _sets(FSET, hashable) + _sets(SET, hashable)
    dvals = [I(1), T(S('a')), L(S('a')), D((S('a'), I(1)))]
    out += _dicts(hashable, dvals, maxsize=2 if tier == 'thorough' else 1)
    if tier != 'thorough':  # size-2 dicts over a reduced key alphabet
        out += _dicts(atoms4[:1] + atoms4[2:3] + inner_t[:5] + inner_f[:3], dvals[:3], maxsize=2)
    # nesting-boundary pairs spelled out (they are in the enumeration; listed for the record)
    out += [T(S('a'), T(S('b'), I(1))), T(T(S('a'), S('b')), I(1)), T(T(S('a')), T(S('b'))), T(T(S('a'), S('b'))), T(T(), T()), T(T(T()))]
    out += [T(T(T(S('a')))), L(L(L(S('a')))), T(L(T(S('a')))), FSET(FSET(FSET())), T(T(T(), T()), T()), T(T(), T(T(), T()))]
    return out


# ------------------------------------------------------------------ ndarrays, arraydata

SHAPES = [(), (0,), (1,), (2,), (4,), (1, 1), (1, 2), (2, 1), (2, 2), (0, 2), (2, 0), (1, 1, 2), (2, 1, 2)]


def _pattern(kind, n, which, dtype=None):
    'n element encodings of the given dtype kind; which in 0 (zeros), 1 (counting), 2 (mixed signs / specials)'
    if kind == 'b':
        return [[False, True, True][(i * which + which) % 3] if which else False for i in range(n)]
    if kind in 'iu':
        if which == 0:
            return [0] * n
        if which == 1:
            return [i + 1 for i in range(n)]
        info = numpy.iinfo(dtype)
        pool = [info.max, info.min, 1, 0] if kind == 'i' else [info.max, 0, 1, 2]
        return [int(pool[i % 4]) for i in range(n)]
    if kind == 'f':
        if which == 0:
            return ['0.0'] * n
        if which == 1:
            return [frepr(i + 1.) for i in range(n)]
        pool = ['-0.0', 'nan', 'inf', '0.5']
        return [pool[i % 4] for i in range(n)]
    if kind == 'c':
        if which == 0:
            return [['0.0', '0.0']] * n
        if which == 1:
            return [[frepr(i + 1.), '0.0'] for i in range(n)]
        pool = [['0.0', '1.0'], ['-0.0', '0.0'], ['0.5', '-2.0'], ['nan', '0.0']]
        return [pool[i % 4] for i in range(n)]


def ndarrays():
    out = []
    dtypes = ['|b1', '|i1', '|u1']
    for code in ('i2', 'u2', 'i4', 'u4', 'i8', 'u8', 'f2', 'f4', 'f8', 'c8', 'c16'):
        dtypes += ['<' + code, '>' + code]
    for dt in dtypes:
        kind = numpy.dtype(dt).kind
        for shape in SHAPES:
            n = int(numpy.prod(shape, dtype=int))
            for which in range(3):
                out.append(ND(dt, shape, _pattern(kind, n, which, dt)))
    return out


def arraydatas():
    out = []
    for kind in ('bool', 'int', 'float', 'complex'):
        for shape in SHAPES:
            n = int(numpy.prod(shape, dtype=int))
            for which in range(3):
                flat = _pattern({'bool': 'b', 'int': 'i', 'float': 'f', 'complex': 'c'}[kind], n, which, 'int8')
                out.append(AD(kind, shape, flat))
        # value coincidences across kinds: [1, 0] as bool / int / float / complex
        out.append(AD(kind, (2,), {'bool': [True, False], 'int': [1, 0], 'float': ['1.0', '0.0'], 'complex': [['1.0', '0.0'], ['0.0', '0.0']]}[kind]))
    out.append(AD('int', (2,), [2**31, -2**31 - 1]))
    out.append(AD('int', (1,), [2**63 - 1]))
    out.append(AD('float', (2,), ['0.1', '1e+300']))
    return out


# ------------------------------------------------------------------ nutils.types containers, functions, misc

def frozens():
    out = _dicts([S('a'), S('b'), I(1), F(1.), B(True)], [I(1), I(2), S('a'), NONE], kind=FD)
    out += [FD((S('a'), T(S('b'), I(2)))), FD((T(S('a'), S('b')), I(2))), FD((S('a'), FD((S('b'), I(2))))), FD((S('a'), FD()))]
    for items in ([S('a'), S('b'), I(1)], [S('a'), S('b'), F(1.)], [T(), T(S('a')), FSET()]):
        for n in range(4):
            for comb in itertools.combinations_with_replacement(items, n):
                out.append(FMS(*comb))
    out += [FMS(*[S('a')] * 10), FMS(*[S('a')] * 11), FMS(*([S('a')] * 10 + [S('b')])), FMS(FMS(S('a')), FMS(S('a'))), FMS(FMS(S('a'), S('a')))]
    out += [HF(S('ident-a')), HF(S('ident-b')), HF(S('')), HF(T(S('ident'), I(1))), HF(T(S('ident'), F(1.))), HF(I(1)), HF(B(True)), HF(T(S('ident-a'))),
            ['hfsrc', 'hf_src1'], ['hfsrc', 'hf_src2'], ['ufunc', 'def f(x):\n    return x + 1\n'], ['ufunc', 'def f(x):\n    return x + 2\n'], ['ufunc', 'def g(x):\n    return x + 1\n']]
    out += [['bytesio', b'abc'.hex(), 0], ['bytesio', b'abc'.hex(), 1], ['bytesio', b'abc'.hex(), 3], ['bytesio', b'ab'.hex(), 0], ['bytesio', b''.hex(), 0], ['bytesio', b'0abc'.hex(), 0]]
    out += [['si', 'Length', '2.0'], ['si', 'Length', '1.0'], ['si', 'Time', '2.0'], ['si', 'Mass', '2.0'], ['si', 'Length', '0.5']]
    return out


def classes():
    out = []
    avals = [I(1), F(1.), B(True), S('a'), T(I(1)), NONE, T(I(1), I(2))]
    bvals = [I(2), I(3), F(2.)]
    for ctor in ('K.Imm', 'K.Imm2', 'K.ImmV', 'K.Outer.Imm', 'K.Sing', 'K.Sing2', 'K.DC', 'K.DC2', 'K.Outer.DC'):
        for a in avals:
            for b in bvals:
                out.append(O(ctor, a, b))
    for a in avals[:3]:
        for b in bvals[:2]:
            for c in (I(3), I(4)):
                out.append(O('K.DCsub', a, b, c))
    for ctor in ('K.ImmKw', 'K.SingKw'):
        for a in avals[:3]:
            for b in bvals[:2]:
                for c in (I(3), I(2)):
                    out.append(O(ctor, a, b, c))
    imm1 = O('K.Imm', I(1))
    out += [O('K.Imm', imm1), O('K.Imm', T(imm1)), O('K.Imm', imm1, imm1), O('K.DC', imm1), O('K.DC', O('K.DC', I(1))), O('K.Sing', O('K.Sing', I(1))),
            O('K.Imm', O('K.DC', I(1))), O('K.DC', O('K.Sing', I(1))), T(imm1, I(2)), T(I(1), I(2), T())]
    out += [INST('K.Pt1', x=I(1), y=I(0)), INST('K.Pt2', x=I(1), y=I(0)), INST('K.Pq', x=I(1), y=I(0)), INST('K.Pt1', x=I(0), y=I(1)), INST('K.Pt1', x=I(1), y=F(0.)),
            INST('K.Pt1', x=T(I(1), I(0)), y=I(0)), INST('K.NT1', a=I(1), b=I(2)), INST('K.NT2', b=I(1), a=I(2)), INST('K.NT2', b=I(2), a=I(1)), INST('K.NU', a=I(1), b=I(2)),
            INST('K.NT1', a=I(2), b=I(1)), T(I(1), I(2)),
            INST('solver.NormBased', minscale=F(.01), acceptscale=F(2 / 3), maxscale=F(2.)), INST('solver.NormBased', minscale=F(.02), acceptscale=F(2 / 3), maxscale=F(2.)),
            INST('solver.NormBased', minscale=F(.01), acceptscale=F(.5), maxscale=F(2.)),
            INST('solver.MedianBased', minscale=F(.01), acceptscale=F(2 / 3), maxscale=F(2.), quantile=F(.5)),
            INST('solver.MedianBased', minscale=F(.01), acceptscale=F(2 / 3), maxscale=F(2.), quantile=F(.25))]
    out += [['method', imm1, 'm1'], ['method', imm1, 'm2'], ['method', O('K.Imm', I(2)), 'm1'], T(imm1, S('m1'))]
    return out


# ------------------------------------------------------------------ geometry-level nutils objects

def fmat(rows):
    a = numpy.array(rows, dtype=float)
    return AD('float', a.shape, [frepr(x) for x in a.reshape(-1)])


def ivec(v):
    return AD('int', (len(v),), list(v))


def geometry():
    tr = lambda n, *a, **k: O('tr.' + n, *a, **k)
    out = [tr('Identity', I(n)) for n in (0, 1, 2)]
    out += [tr('Index', I(n), I(i)) for n, i in ((0, 0), (1, 0), (1, 1), (2, 0), (2, 1), (1, 2))]
    out += [tr('SimplexEdge', I(n), I(i), B(f)) for n, i, f in ((1, 0, False), (1, 1, False), (1, 0, True), (2, 0, False), (2, 1, False), (2, 2, False), (2, 0, True), (3, 0, False))]
    out += [tr('SimplexChild', I(n), I(i)) for n, i in ((1, 0), (1, 1), (2, 0), (2, 1), (2, 3), (3, 0))]
    out += [tr('Square', fmat([[1.]]), fmat([0.])), tr('Square', fmat([[2.]]), fmat([0.])), tr('Square', fmat([[1.]]), fmat([1.])), tr('Square', fmat([[.5]]), fmat([0.])),
            tr('Square', fmat([[1., 0.], [0., 1.]]), fmat([0., 0.])), tr('Matrix', fmat([[1.]]), fmat([0.])), tr('Matrix', fmat([[1.], [0.]]), fmat([0., 0.])),
            tr('Matrix', fmat([[0.], [1.]]), fmat([0., 0.])), tr('Updim', fmat([[1.], [0.]]), fmat([0., 0.]), B(False)), tr('Updim', fmat([[1.], [0.]]), fmat([0., 0.]), B(True)),
            tr('Updim', fmat([[0.], [1.]]), fmat([0., 0.]), B(False)), tr('Point', fmat([0.])), tr('Point', fmat([1.])), tr('Point', fmat([0., 0.]))]
    e10, e11, e20 = tr('SimplexEdge', I(1), I(0), B(False)), tr('SimplexEdge', I(1), I(1), B(False)), tr('SimplexEdge', I(2), I(0), B(False))
    c10, c11, c20 = tr('SimplexChild', I(1), I(0)), tr('SimplexChild', I(1), I(1)), tr('SimplexChild', I(2), I(0))
    out += [tr('ScaledUpdim', c20, e20), tr('ScaledUpdim', c10, e10), tr('ScaledUpdim', c11, e10), tr('ScaledUpdim', c10, e11),
            tr('TensorEdge1', e10, I(1)), tr('TensorEdge1', e11, I(1)), tr('TensorEdge1', e10, I(2)), tr('TensorEdge2', I(1), e10), tr('TensorEdge2', I(1), e11), tr('TensorEdge2', I(2), e10),
            tr('TensorChild', c10, c11), tr('TensorChild', c11, c10), tr('TensorChild', c10, c10), tr('TensorChild', c10, c20), tr('TensorChild', c20, c10)]
    # references
    el = lambda n, *a: O('el.' + n, *a)
    P, Ln, Tri, Tet = el('PointReference'), el('LineReference'), el('TriangleReference'), el('TetrahedronReference')
    LL = el('TensorReference', Ln, Ln)
    eL = el('EmptyLike', Ln)
    refs = [P, Ln, Tri, Tet, LL, el('TensorReference', Ln, Tri), el('TensorReference', Tri, Ln), el('TensorReference', Ln, LL), el('TensorReference', Tri, Tri),
            el('TensorReference', Ln, P), el('TensorReference', P, Ln), eL, el('EmptyLike', Tri), el('EmptyLike', LL), el('OwnChildReference', Ln), el('OwnChildReference', Tri),
            el('WithChildrenReference', Ln, T(Ln, eL)), el('WithChildrenReference', Ln, T(eL, Ln))]
    out += refs
    # points
    pt = lambda n, *a: O('pt.' + n, *a)
    G11, G12, G13, G21 = pt('SimplexGaussPoints', I(1), I(1)), pt('SimplexGaussPoints', I(1), I(2)), pt('SimplexGaussPoints', I(1), I(3)), pt('SimplexGaussPoints', I(2), I(1))
    co = fmat([[0.], [1.]])
    out += [G11, G12, G13, G21, pt('SimplexGaussPoints', I(2), I(2)), pt('SimplexGaussPoints', I(3), I(1)), pt('SimplexBezierPoints', I(1), I(2)), pt('SimplexBezierPoints', I(1), I(3)),
            pt('SimplexBezierPoints', I(2), I(2)), pt('CoordsPoints', co), pt('CoordsPoints', fmat([[1.], [0.]])), pt('CoordsPoints', fmat([[0., 1.]])),
            pt('CoordsWeightsPoints', co, fmat([.5, .5])), pt('CoordsWeightsPoints', co, fmat([.25, .75])), pt('CoordsWeightsPoints', fmat([[.5]]), fmat([1.])),
            pt('CoordsUniformPoints', co, F(1.)), pt('CoordsUniformPoints', co, F(2.)), pt('CoordsUniformPoints', fmat([[.5]]), F(1.)),
            pt('TensorPoints', G11, G12), pt('TensorPoints', G12, G11), pt('TensorPoints', G11, G11), pt('TensorPoints', pt('TensorPoints', G11, G12), G11), pt('TensorPoints', G11, pt('TensorPoints', G12, G11)),
            pt('TransformPoints', G11, c10), pt('TransformPoints', G11, c11), pt('TransformPoints', G12, c10),
            pt('ConcatPoints', T(G11, G12), FSET()), pt('ConcatPoints', T(G12, G11), FSET()), pt('ConcatPoints', T(G11, G12), FSET(T(T(I(0), I(0)), T(I(1), I(0)))))]
    # sequences
    es = lambda n, *a: O('es.' + n, *a)
    plain = es('_Plain', T(Ln, eL), I(1))
    plain2 = es('_Plain', T(eL, Ln), I(1))
    uni = es('_Uniform', Ln, I(2))
    out += [es('_Empty', I(0)), es('_Empty', I(1)), es('_Empty', I(2)), es('_Uniform', Ln, I(1)), uni, es('_Uniform', Ln, I(3)), es('_Uniform', Tri, I(2)), es('_Uniform', P, I(2)),
            es('_Uniform', eL, I(2)), plain, plain2, es('_Plain', T(Ln, eL, Ln), I(1)), es('_Take', plain, ivec([0, 0])), es('_Take', plain, ivec([1, 0])), es('_Take', plain2, ivec([0, 0])),
            es('_Repeat', plain, I(2)), es('_Repeat', plain, I(3)), es('_Repeat', plain2, I(2)), es('_Product', plain, uni), es('_Product', uni, plain), es('_Product', plain, plain),
            es('_Chain', plain, plain2), es('_Chain', plain2, plain), es('_Derived', uni, S('child_refs'), I(1)), es('_Derived', uni, S('edge_refs'), I(0)), es('_Derived', plain, S('child_refs'), I(1))]
    ps = lambda n, *a: O('ps.' + n, *a)
    pplain = ps('_Plain', T(G11, G12), I(1))
    out += [ps('_Empty', I(1)), ps('_Empty', I(2)), ps('_Uniform', G11, I(2)), ps('_Uniform', G12, I(2)), ps('_Uniform', G11, I(3)), pplain, ps('_Plain', T(G12, G11), I(1)),
            ps('_Product', pplain, ps('_Uniform', G11, I(2))), ps('_Product', ps('_Uniform', G11, I(2)), pplain)]
    ts = lambda n, *a: O('ts.' + n, *a)
    i10, i11 = tr('Index', I(1), I(0)), tr('Index', I(1), I(1))
    it2, it3 = ts('IndexTransforms', I(1), I(2), I(0)), ts('IndexTransforms', I(1), I(3), I(0))
    ax = lambda i, j, m, p: ts('DimAxis', I(i), I(j), I(m), B(p))
    out += [ts('EmptyTransforms', I(1), I(1)), ts('EmptyTransforms', I(2), I(1)), ts('EmptyTransforms', I(2), I(2)), it2, it3, ts('IndexTransforms', I(1), I(2), I(1)), ts('IndexTransforms', I(2), I(2), I(0)),
            ts('PlainTransforms', T(T(i10), T(i11)), I(1), I(1)), ts('PlainTransforms', T(T(i10)), I(1), I(1)), ts('PlainTransforms', T(T(i10, c10), T(i10, c11)), I(1), I(1)),
            ts('PlainTransforms', T(T(i10, c10), T(i11, c10)), I(1), I(1)), ts('PlainTransforms', T(), I(1), I(1)),
            ax(0, 2, 0, False), ax(0, 2, 0, True), ax(0, 2, 2, True), ax(1, 2, 0, False), ax(0, 3, 0, False),
            ts('IntAxis', I(0), I(1), I(0), I(0), B(False)), ts('IntAxis', I(0), I(1), I(0), I(0), B(True)), ts('IntAxis', I(0), I(1), I(0), I(1), B(False)), ts('IntAxis', I(1), I(2), I(0), I(0), B(False)),
            ts('StructuredTransforms', i10, T(ax(0, 2, 0, False)), I(0)), ts('StructuredTransforms', i10, T(ax(0, 2, 0, False)), I(1)), ts('StructuredTransforms', i11, T(ax(0, 2, 0, False)), I(0)),
            ts('StructuredTransforms', i10, T(ax(0, 3, 0, False)), I(0)), ts('StructuredTransforms', i10, T(ax(0, 2, 2, True)), I(0)),
            ts('StructuredTransforms', tr('Index', I(2), I(0)), T(ax(0, 2, 0, False), ax(0, 1, 0, False)), I(0)), ts('StructuredTransforms', tr('Index', I(2), I(0)), T(ax(0, 1, 0, False), ax(0, 2, 0, False)), I(0)),
            ts('MaskedTransforms', it3, ivec([0, 2])), ts('MaskedTransforms', it3, ivec([0, 1])), ts('MaskedTransforms', it2, ivec([0])), ts('ReorderedTransforms', it2, ivec([1, 0])),
            ts('ReorderedTransforms', it3, ivec([1, 0, 2])), ts('ReorderedTransforms', it3, ivec([2, 0, 1])),
            ts('ChainedTransforms', T(it2, ts('IndexTransforms', I(1), I(2), I(2)))), ts('ChainedTransforms', T(it2, ts('IndexTransforms', I(1), I(1), I(2)))),
            ts('UniformDerivedTransforms', it2, Ln, S('child_transforms'), I(1)), ts('UniformDerivedTransforms', it2, Ln, S('edge_transforms'), I(0)), ts('UniformDerivedTransforms', it3, Ln, S('child_transforms'), I(1))]
    return out


# ------------------------------------------------------------------ evaluable term space (depth <= 2)

def ev_leaves():
    c = lambda n: O('ev.Constant', AD('int', (), [n]))
    C2 = c(2)
    x = O('ev.Argument', S('x'), T(C2), TYPE('float'))
    y = O('ev.Argument', S('y'), T(C2), TYPE('float'))
    c1 = O('ev.Constant', AD('float', (2,), ['1.0', '2.0']))
    c2 = O('ev.Constant', AD('float', (2,), ['2.0', '1.0']))
    z = O('ev.Zeros', T(C2), TYPE('float'))
    return [x, y, c1, c2, z], C2, c


def ev_extra_leaves():
    leaves, C2, c = ev_leaves()
    out = [O('ev.Argument', S('x'), T(C2), TYPE('int')), O('ev.Argument', S('x'), T(C2), TYPE('complex')), O('ev.Argument', S('x'), T(C2), TYPE('bool')), O('ev.Argument', S('x'), T(), TYPE('float')),
           O('ev.Argument', S('x'), T(c(3)), TYPE('float')), O('ev.Argument', S('x'), T(C2, C2), TYPE('float')), O('ev.Argument', S('xy'), T(C2), TYPE('float')), O('ev.Argument', S(''), T(C2), TYPE('float')),
           O('ev.Zeros', T(C2), TYPE('int')), O('ev.Zeros', T(), TYPE('float')), O('ev.Zeros', T(c(3)), TYPE('float')), O('ev.Zeros', T(C2, C2), TYPE('float')),
           C2, c(3), c(0), c(1), O('ev.Constant', AD('float', (), ['2.0'])), O('ev.Constant', AD('bool', (), [True])), O('ev.Constant', AD('int', (1,), [2])), O('ev.Constant', AD('complex', (), [['2.0', '0.0']])),
           O('ev.Constant', AD('int', (2,), [1, 2])), O('ev.Constant', AD('bool', (2,), [True, True])), O('ev.Constant', AD('float', (1, 2), ['1.0', '2.0'])), O('ev.Constant', AD('float', (2, 1), ['1.0', '2.0'])),
           O('ev.Range', C2), O('ev.Range', c(3)), O('ev.IntToFloat', O('ev.Range', C2))]
    return out


UNARY = [('Negative', {}), ('Sin', {}), ('Cos', {}), ('Exp', {}), ('Reciprocal', {}), ('Absolute', {}), ('Sinc', {'n': I(0)}), ('Sinc', {'n': I(1)}), ('Sinc', {'n': I(2)})]
COMM = ['Add', 'Multiply']
ORDERED = ['Power', 'Minimum', 'Maximum', 'ArcTan2']


def ev_terms(tier):
    leaves, C2, c = ev_leaves()
    d1 = []
    for name, kw in UNARY:
        for a in leaves:
            d1.append(O('ev.' + name, a, **kw))
    for name in COMM:
        for a, b in itertools.combinations_with_replacement(leaves, 2):
            d1.append(O('ev.' + name, FMS(a, b)))
    for name in ORDERED:
        for a, b in itertools.product(leaves, repeat=2):
            d1.append(O('ev.' + name, a, b))
    small = leaves if tier == 'thorough' else leaves[:3]
    d2 = []
    for name, kw in UNARY:
        for a in d1:
            d2.append(O('ev.' + name, a, **kw))
    for name in COMM:
        for a in d1:
            for b in small:
                d2.append(O('ev.' + name, FMS(a, b)))
            d2.append(O('ev.' + name, FMS(a, a)))
    for name in ORDERED:
        for a in d1:
            for b in small:
                d2.append(O('ev.' + name, a, b))
                d2.append(O('ev.' + name, b, a))
    if tier == 'thorough':  # siblings: binary nodes over pairs of depth-1 terms that share a child
        for name in COMM + ORDERED[:1]:
            for a, b in itertools.combinations(d1[:60], 2):
                d2.append(O('ev.' + name, FMS(a, b)) if name in COMM else O('ev.' + name, a, b))
    roots = []
    for a in leaves + d1:
        roots += [O('ev.Sum', a), O('ev.InsertAxis', a, C2), O('ev.InsertAxis', a, c(3)), O('ev.Tuple', T(a)), O('ev.Diagonalize', a)]
    for a, b in itertools.product(leaves, repeat=2):
        roots += [O('ev.Tuple', T(a, b)), O('ev.Equal', a, b)]
    roots += [O('ev.Tuple', T()), O('ev.Tuple', T(O('ev.Tuple', T(leaves[0])))), O('ev.Tuple', T(leaves[0], leaves[0])),
              O('ev.Transpose', O('ev.InsertAxis', leaves[0], C2), T(I(1), I(0))), O('ev.Transpose', O('ev.InsertAxis', leaves[1], C2), T(I(1), I(0))),
              O('ev.Take', leaves[0], O('ev.Range', C2)), O('ev.Take', leaves[1], O('ev.Range', C2))]
    return leaves + ev_extra_leaves() + d1, d2 + roots


# ------------------------------------------------------------------ solver method objects and type-confusion probes

def solvers():
    la = [D(), D((S('rtol'), F(1e-3))), D((S('atol'), F(1e-3))), D((S('rtol'), F(1e-3)), (S('atol'), F(0.)))]
    out = []
    for l in la:
        out += [O('solver.Direct', linargs=l), O('solver.Newton', linargs=l), O('solver.ReuseNewton', linargs=l), O('solver.Minimize', linargs=l), O('solver.LinesearchNewton', linargs=l)]
    out += [O('solver.ReuseNewton', require=F(.25)), O('solver.ReuseNewton', require=F(.75)),
            O('solver.Minimize', rampup=F(-1.), rampdown=F(.5)), O('solver.Minimize', failrelax=F(-1.), rampdown=F(-10.)), O('solver.Minimize', rampup=F(.25)),
            O('solver.LinesearchNewton', relax0=F(.5)), O('solver.LinesearchNewton', failrelax=F(.5)), O('solver.LinesearchNewton', failrelax=F(1.), relax0=F(1e-6)),
            O('solver.LinesearchNewton', strategy=INST('solver.MedianBased', minscale=F(.01), acceptscale=F(2 / 3), maxscale=F(2.), quantile=F(.5))),
            O('solver.LinesearchNewton', strategy=INST('solver.NormBased', minscale=F(.02), acceptscale=F(2 / 3), maxscale=F(2.)))]
    x = ev_leaves()[0][0]
    y = ev_leaves()[0][1]
    out += [O('solver.Pseudotime', T(x), F(1.)), O('solver.Pseudotime', T(x), F(2.)), O('solver.Pseudotime', T(y), F(1.)), O('solver.Pseudotime', T(x, y), F(1.)), O('solver.Pseudotime', T(x), F(1.), D((S('rtol'), F(1e-3))))]
    return out


def confusions():
    'plain containers spelled like the tuples some __nutils_hash__ implementations delegate to'
    return [T(S('hashable_function'), S('ident-a')), T(S('hashable_function'), T(S('ident'), I(1))), T(S('Direct'), D()), T(S('Newton'), D()), T(S('Direct'), D((S('rtol'), F(1e-3)))),
            T(S('ReuseNewton'), F(.5), D()), T(S('Minimize'), F(.5), F(-1.), F(-10.), D()), T(S('Pseudotime'), T(ev_leaves()[0][0]), F(1.), D())]


def meshes():
    return [['mesh', i] for i in mesh_ids()]


# ------------------------------------------------------------------ assembly

BLOCK = {'quick': 1500, 'thorough': 2500}


@functools.lru_cache(None)
def corpus(tier):
    fams = [('atom', atoms()), ('cont1', containers1(tier)), ('ndarray', ndarrays()), ('arraydata', arraydatas()), ('frozen', frozens()), ('class', classes()),
            ('geometry', geometry()), ('solver', solvers() + confusions()), ('mesh', meshes())]
    e1, e2 = ev_terms(tier)
    fams += [('eval1', e1), ('eval2', e2), ('cont2', containers2(tier))]
    seen = {}
    out = []
    for fam, specs in fams:
        for s in specs:
            key = ckey(s)
            if key in seen:
                continue
            seen[key] = len(out)
            out.append({'spec': s, 'key': key, 'fam': fam, 'id': len(out)})
    return out


@functools.lru_cache(None)
def blocks(tier):
    'list of (name, [value indices]); families are cut into chunks of at most BLOCK values'
    vals = corpus(tier)
    out = []
    byfam = {}
    for v in vals:
        byfam.setdefault(v['fam'], []).append(v['id'])
    for fam, ids in byfam.items():
        n = (len(ids) + BLOCK[tier] - 1) // BLOCK[tier]
        size = (len(ids) + n - 1) // n
        for i in range(n):
            out.append(('{}/{}'.format(fam, i), ids[i * size:(i + 1) * size]))
    return out
