'''C12 reference model: plain numpy, never calls nutils.

* polynomial evaluation in the documented nutils_poly coefficient convention
  (power series, coefficients in reverse lexicographic order of the powers);
* the B-spline space that a structured ``basis('spline', ...)`` call denotes
  (Cox-de Boor recursion on the knot vector with multiplicities, periodised
  for periodic directions);
* the interpretation of the spline arguments (degree, continuity,
  knotvalues, knotmultiplicities, periodic) as documented in the tests and
  docstrings of nutils.
'''

import itertools, math
import numpy


# ------------------------------------------------------------ polynomials

def powers(nd, p):
    '''list of power tuples of a degree-p polynomial in nd variables, in the
    order of the coefficient vector: reverse lexicographic, i.e. sorted on the
    LAST power descending first.  powers(1,2) = [(2,),(1,),(0,)];
    powers(2,2) = [(0,2),(1,1),(0,1),(2,0),(1,0),(0,0)].'''
    if nd == 0:
        return [()]
    out = []
    for klast in range(p, -1, -1):
        for sub in powers(nd - 1, p - klast):
            out.append(sub + (klast,))
    return out


def ncoeffs(nd, p):
    return math.comb(p + nd, nd)


def degree_from_ncoeffs(nd, nc):
    'inverse of ncoeffs, None if nc is not a valid coefficient count'
    for p in range(0, 12):
        n = ncoeffs(nd, p)
        if n == nc:
            return p
        if n > nc:
            return None
    return None


def polyval(coeffs, coords):
    '''coeffs (nfuncs, ncoeffs), coords (npoints, nd) -> (npoints, nfuncs)'''
    coeffs = numpy.asarray(coeffs, dtype=float)
    coords = numpy.asarray(coords, dtype=float)
    nd = coords.shape[1]
    p = degree_from_ncoeffs(nd, coeffs.shape[1])
    if p is None:
        raise ValueError('{} is not a coefficient count in {} variables'.format(coeffs.shape[1], nd))
    mon = numpy.empty((coords.shape[0], coeffs.shape[1]))
    for j, k in enumerate(powers(nd, p)):
        m = numpy.ones(coords.shape[0])
        for x, ki in zip(coords.T, k):
            if ki:
                m = m * x**ki
        mon[:, j] = m
    return mon @ coeffs.T


# ------------------------------------------------------------ spline arguments

def spline_dim(p, n, mults, continuity, periodic):
    '''interpret the arguments of basis_spline for one direction.

    mults: None or a list of n+1 ints (or a shorter list of length (n >> r)+1,
    which nutils refines r times inserting knots of multiplicity p-c).
    returns dict(m=list of multiplicities per knot 0..n (n+1 entries, periodic: m[n] == m[0]),
                 cont=list of advertised continuity per knot, periodic=effective periodicity, nd=number of functions)
    '''
    c = continuity
    if c < 0:
        c += p
    assert -1 <= c < p
    if mults is None:
        m = [p - c] * (n + 1)
    else:
        m = list(mults)
        assert min(m) > 0 and max(m) <= p + 1
        while len(m) < n + 1:
            m2 = [p - c] * (2 * len(m) - 1)
            m2[::2] = m
            m = m2
        assert len(m) == n + 1
    if periodic and not (m[0] == m[n] == p + 1):
        assert m[0] == m[n]
        nd = sum(m[:n])
        eff = True
    else:
        m[0] = m[n] = p + 1
        nd = sum(m[1:n]) + p + 1
        eff = False
    return {'m': m, 'cont': [p - mi for mi in m], 'periodic': eff, 'nd': nd, 'p': p, 'n': n}


def knotvalues_full(kv, n):
    'knot values: None -> 0..n; a shorter list is refined by midpoint insertion'
    if kv is None:
        return numpy.arange(n + 1, dtype=float)
    k = numpy.array(kv, dtype=float)
    while len(k) < n + 1:
        k2 = numpy.empty(len(k) * 2 - 1)
        k2[::2] = k
        k2[1::2] = (k[:-1] + k[1:]) / 2
        k = k2
    assert len(k) == n + 1
    return k


def _coxdeboor(t, p, x):
    '''all B-splines of degree p on the knot sequence t (with repetitions) at points x
    (right-open convention; points are never on knots here) -> (len(x), len(t)-p-1)'''
    t = numpy.asarray(t, dtype=float)
    x = numpy.asarray(x, dtype=float)
    nb = len(t) - 1
    N = numpy.zeros((len(x), nb))
    for j in range(nb):
        if t[j + 1] > t[j]:
            N[:, j] = (x >= t[j]) & (x < t[j + 1])
    for q in range(1, p + 1):
        M = numpy.zeros((len(x), nb - q))
        for j in range(nb - q):
            a = t[j + q] - t[j]
            b = t[j + q + 1] - t[j + 1]
            if a > 0:
                M[:, j] += (x - t[j]) / a * N[:, j]
            if b > 0:
                M[:, j] += (t[j + q + 1] - x) / b * N[:, j + 1]
        N = M
    return N


def bspline_values(dim, kv, x):
    '''reference B-spline basis for one direction: dim from spline_dim, kv the n+1 knot
    values, x points strictly inside elements -> (len(x), nd).
    Non-periodic: natural order.  Periodic: function j starts at the j-th knot
    (counted with multiplicity) of the period; the numbering offset is a convention.'''
    p, n, m = dim['p'], dim['n'], dim['m']
    if not dim['periodic']:
        t = [kv[i] for i in range(n + 1) for _ in range(m[i])]
        return _coxdeboor(t, p, x)
    L = kv[n] - kv[0]
    per = [kv[i] for i in range(n) for _ in range(m[i])]
    nd = len(per)
    reps = (p + 1) // nd + 3
    t = [v + r * L for r in range(-reps, reps + 1) for v in per]
    N = _coxdeboor(t, p, x)     # columns: B-spline starting at knot index j of the extended sequence
    out = numpy.zeros((len(x), nd))
    for j in range(N.shape[1]):
        out[:, j % nd] += N[:, j]
    return out


def tensor_columns(mats):
    'outer product of per-direction (npoints, nd_i) matrices -> (npoints, prod nd_i), last direction fastest'
    out = mats[0]
    for M in mats[1:]:
        out = (out[:, :, None] * M[:, None, :]).reshape(out.shape[0], -1)
    return out


def match_columns(A, B, tol):
    '''bijection between the columns of A and B (as functions sampled on the same points);
    returns None if found else a description'''
    if A.shape != B.shape:
        return 'shape {} != {}'.format(A.shape, B.shape)
    used = set()
    for j in range(A.shape[1]):
        d = abs(B - A[:, j:j + 1]).max(axis=0)
        cands = [k for k in numpy.nonzero(d <= tol)[0] if k not in used]
        if not cands:
            return 'function {} has no counterpart (closest differs by {:.3e})'.format(j, float(d.min()))
        used.add(cands[0])
    return None


def rank(A, rtol=1e-8):
    if 0 in A.shape:
        return 0
    s = numpy.linalg.svd(A, compute_uv=False)
    return int((s > rtol * s[0]).sum()) if s[0] > 0 else 0


def in_span(A, F, tol=1e-8):
    'max residual of least squares fit of the columns of F by the columns of A, relative to |F|'
    if A.shape[1] == 0:
        return float('inf')
    c, *_ = numpy.linalg.lstsq(A, F, rcond=None)
    r = A @ c - F
    return float(abs(r).max() / max(1., abs(F).max()))


def canonical_labelings(n, maxparts):
    'all assignments of n items to part indices, up to renaming of the parts (restricted growth strings)'
    out = []

    def rec(prefix, mx):
        if len(prefix) == n:
            out.append(list(prefix))
            return
        for v in range(min(mx + 1, maxparts - 1) + 1):
            rec(prefix + [v], max(mx, v))
    rec([], -1)
    return out


# ------------------------------------------------------------ derivatives of coefficient tables

def _falling(n, k):
    out = 1
    for i in range(k):
        out *= n - i
    return out


def poly_derivative_tensor(coeffs, coords, k):
    '''k-th derivative tensor with respect to the LOCAL coordinates of the polynomials in a coefficient
    table: coeffs (nfuncs, ncoeffs), coords (npoints, nd) -> (npoints, nfuncs, nd, ..., nd)'''
    coeffs = numpy.asarray(coeffs, dtype=float)
    coords = numpy.asarray(coords, dtype=float)
    nd = coords.shape[1]
    p = degree_from_ncoeffs(nd, coeffs.shape[1])
    P = powers(nd, p)
    out = numpy.zeros((coords.shape[0], coeffs.shape[0]) + (nd,) * k)
    cache = {}
    for axes in itertools.product(range(nd), repeat=k):
        alpha = tuple(axes.count(d) for d in range(nd))
        if alpha not in cache:
            mon = numpy.zeros((coords.shape[0], len(P)))
            for j, pw in enumerate(P):
                if all(pw[d] >= alpha[d] for d in range(nd)):
                    m = numpy.full(coords.shape[0], float(numpy.prod([_falling(pw[d], alpha[d]) for d in range(nd)])))
                    for d in range(nd):
                        e = pw[d] - alpha[d]
                        if e:
                            m = m * coords[:, d]**e
                    mon[:, j] = m
            cache[alpha] = mon @ coeffs.T
        out[(slice(None), slice(None)) + axes] = cache[alpha]
    return out


def to_physical(D, Jinv, k):
    'local derivative tensor (npoints, nfuncs, nd^k) -> physical, d/dx_a = sum_b Jinv[b,a] d/dxi_b'
    for axis in range(k):
        D = numpy.moveaxis(numpy.tensordot(D, Jinv, axes=([2 + axis], [0])), -1, 2 + axis)
    return D


def affine_fit(coords, x):
    'least squares x = x0 + J coords; returns J (nx, nd) and the max residual'
    A = numpy.concatenate([numpy.ones((len(coords), 1)), coords], axis=1)
    sol, *_ = numpy.linalg.lstsq(A, x, rcond=None)
    return sol[1:].T, float(abs(A @ sol - x).max())


def element_points(nd, q):
    '''a lattice of points strictly inside the unit simplex (hence inside the unit cube as well) that is
    unisolvent for polynomials of total degree q'''
    M = q + 2
    g = [(i + .5) / M for i in range(M)]
    return numpy.array([pt for pt in itertools.product(g, repeat=nd) if sum(pt) < 1 - 1e-12])
