'''C11 parts (c) and (d): element-index / local-coordinate functions, interfaces and locate.

Geometric model (numpy only).  Every element of every topology in the family is
described by its transform chain, read as data: the Index items name the base
cell, the remaining items compose to an affine map from the element's reference
to the local coordinates of the base cell (matrices .linear/.offset).  A base
cell maps to physical space by a known formula (rectilinear: G(cell index +
local)) or by an affine map calibrated once from the base domain's own vertex
sample (simplex / mixed meshes).

 (c) for a sample of topology T and an ancestor topology D (T was derived from D by
     refined / refined_by / take / slice / subset / boundary / interfaces): D.f_index and
     D.f_coords must evaluate to the D element that geometrically contains the
     point (nudged towards the inside of the T element it belongs to) and to the
     inverse image of the point under that element's map; T's own f_index /
     f_coords must give (element number, the sample's own points); for interfaces the
     same for opposite(.), and jump(geom) must vanish (modulo the period).
 (d) locate: images of the returned points are within the requested tolerance
     of the targets, in input order, and lie inside their element; certainly
     interior targets are found; otherwise LocateError.
'''

import json, itertools
import numpy
from . import core

EPS_NUDGE = 1e-3
ATOL = 1e-10

BASES = ['line3', 'line3p', 'rect22', 'rect22p0', 'rect23p1', 'tri2', 'mixed2']
VOL_OPS = ['refined', 'rb_first', 'rb_last2', 'take_evens', 'slice', 'subset']
FACET_OPS = ['boundary', 'interfaces']
POST_OPS = ['refined', 'take_evens']


# ---------------------------------------------------------------- family

def build_base(name, gname='affine'):
    '''returns dict(topo, geom, G (numpy), rect shape or None, period per dim, Lmax)'''
    from nutils import mesh, function
    if name.startswith('line') or name.startswith('rect'):
        if name.startswith('line'):
            D, g0 = mesh.rectilinear([3], periodic=(0,) if name.endswith('p') else ())
            shape, per = (3,), ((0,) if name.endswith('p') else ())
        else:
            shape = (2, 3) if name.startswith('rect23') else (2, 2)
            per = (0,) if name.endswith('p0') else (1,) if name.endswith('p1') else ()
            D, g0 = mesh.rectilinear(list(shape), periodic=per)
        nd = len(shape)
        scale = numpy.array([2., .5][:nd])
        shift = numpy.array([1., -1.][:nd])
        if gname == 'affine':
            geom = g0 * scale + shift
            G = lambda x: x * scale + shift
            lmax = 2.
        elif gname == 'quad':  # mildly nonlinear, invertible on the domain
            if nd == 1:
                geom = g0 + .05 * g0 * g0
                G = lambda x: x + .05 * x * x
            else:
                geom = g0 + .05 * numpy.stack([g0[1] * g0[1], g0[0] * g0[1]])
                G = lambda x: x + .05 * numpy.stack([x[..., 1] * x[..., 1], x[..., 0] * x[..., 1]], axis=-1)
            lmax = 2.
        else:
            raise core.HarnessError('unknown geometry ' + gname)
        period = [shape[k] if k in per else 0 for k in range(nd)]
        return dict(name=name, topo=D, geom=geom, G=G, shape=shape, period=period, lmax=lmax, cal=None, g0=g0)
    if name in ('tri2', 'mixed2'):
        D, geom = mesh.unitsquare(2, 'triangle' if name == 'tri2' else 'mixed')
        return dict(name=name, topo=D, geom=geom, G=None, shape=None, period=[0, 0], lmax=1., cal={}, g0=None)
    raise core.HarnessError('unknown base ' + name)


def apply_topo_op(T, op):
    n = len(T)
    if op == 'refined':
        return T.refined
    if op == 'rb_first':
        return T.refined_by([0])
    if op == 'rb_last2':
        return T.refined_by(sorted({max(0, n - 2), n - 1}))
    if op == 'take_evens':
        if n < 2:
            return None
        return T.take(list(range(0, n, 2)))
    if op == 'slice':
        if type(T).__name__ != 'StructuredTopology':
            return None
        return T[1:]
    if op == 'subset':
        if n < 2:
            return None
        return T.subset(T.take(list(range((n + 1) // 2))))
    if op == 'boundary':
        return T.boundary
    if op == 'interfaces':
        return T.interfaces
    raise core.HarnessError('unknown op ' + op)


def op_sequences(tier):
    'operation sequences: volume ops (depth<=1 quick, <=2 thorough, plus selected pairs), optionally one facet op, optionally one post op'
    vols = [[]] + [[v] for v in VOL_OPS]
    pairs = [['refined', 'rb_first'], ['rb_first', 'rb_first'], ['rb_first', 'rb_last2'], ['take_evens', 'refined'], ['refined', 'take_evens'], ['subset', 'refined'], ['slice', 'rb_first'], ['rb_first', 'refined']]
    if tier != 'quick':
        pairs = [[a, b] for a in VOL_OPS for b in VOL_OPS]
    vols += pairs
    out = []
    for v in vols:
        out.append(v)
        for f in FACET_OPS:
            out.append(v + [f])
            for p in POST_OPS:
                if tier == 'quick' and len(v) == 2 and p == 'take_evens':
                    continue
                out.append(v + [f, p])
    return out


# ---------------------------------------------------------------- geometric model

def compose(chain):
    A = b = None
    for item in chain:
        L = numpy.asarray(item.linear, dtype=float)
        o = numpy.asarray(item.offset, dtype=float)
        if A is None:
            A, b = L, o
        else:
            A, b = A @ L, A @ o + b
    return A, b


def cellid(chain):
    from nutils import transform
    return tuple(item.index for item in chain if isinstance(item, transform.Index))


def inside(ref, xi, tol):
    'is xi inside the reference element (line, triangle, tensor products of lines / points)'
    n = type(ref).__name__
    xi = numpy.asarray(xi)
    if n in ('LineReference', 'PointReference') or (n == 'TensorReference' and all(type(r).__name__ in ('LineReference', 'PointReference') for r in _factors(ref))):
        return bool((xi >= -tol).all() and (xi <= 1 + tol).all())
    if n == 'TriangleReference':
        return bool((xi >= -tol).all() and xi.sum() <= 1 + tol)
    raise core.HarnessError('inside: unsupported reference {}'.format(ref))


def _factors(ref):
    if type(ref).__name__ == 'TensorReference':
        return _factors(ref.ref1) + _factors(ref.ref2)
    return [ref]


class Geo:
    'geometric description of one topology: per element (cell id, A, b, reference)'

    def __init__(self, T, opposite=False):
        seq = T.opposites if opposite else T.transforms
        self.elems = []
        self.bycell = {}
        for i in range(len(T)):
            chain = seq[i]
            A, b = compose(chain)
            cid = cellid(chain)
            self.elems.append((cid, A, b, T.references[i], chain))
            self.bycell.setdefault(cid, []).append(i)
        self.ndims = T.ndims

    def find(self, cid, q, tol=1e-9):
        'indices of the elements of this topology whose image contains local point q of base cell cid'
        hits = []
        for i in self.bycell.get(cid, ()):
            _, A, b, ref, _ = self.elems[i]
            xi, res, rank, sv = numpy.linalg.lstsq(A, q - b, rcond=None)
            if numpy.abs(A @ xi + b - q).max() > tol:
                continue
            if inside(ref, xi, tol):
                hits.append(i)
        return hits

    def invert(self, i, x):
        _, A, b, ref, _ = self.elems[i]
        xi = numpy.linalg.lstsq(A, (x - b).T, rcond=None)[0].T
        return xi


def region_centroid(chain, m, cellref):
    '''centroid (cell-local coordinates) of the m-dimensional region the chain passes through last:
    the image of the reference reached by the longest head of the chain that still has fromdims >= m'''
    ref = cellref
    k = 0
    from nutils import transform
    while k < len(chain) and isinstance(chain[k], transform.Index):
        k += 1
    head = k
    for j in range(k, len(chain)):
        item = chain[j]
        if item.fromdims < m:
            break
        if item.fromdims == item.todims:
            idx = [n for n, t in enumerate(ref.child_transforms) if t == item]
            if not idx:
                return None
            ref = ref.child_refs[idx[0]]
        else:
            idx = [n for n, t in enumerate(ref.edge_transforms) if t == item]
            if not idx:
                return None
            ref = ref.edge_refs[idx[0]]
        head = j + 1
    if ref.ndims != m:
        return None
    c = numpy.asarray(ref.vertices, dtype=float).mean(axis=0) if ref.ndims else numpy.zeros(0)
    A, b = compose(chain[:head])
    return A @ c + b


class Family:
    'base domain + physical map of its cells'

    def __init__(self, base):
        self.base = base
        D = base['topo']
        self.cellref = {}
        self.cellphys = {}
        g = Geo(D)
        for i, (cid, A, b, ref, chain) in enumerate(g.elems):
            self.cellref[cid] = ref
        if base['cal'] is not None:
            # calibrate an affine cell->physical map from the base domain's own vertex sample
            smp = D.sample('bezier', 2)
            Xall = numpy.asarray(smp.eval(base['geom']))
            for i, (cid, A, b, ref, chain) in enumerate(g.elems):
                X = Xall[numpy.asarray(smp.getindex(i))]
                P = numpy.asarray(smp.points[i].coords, dtype=float)
                M = numpy.concatenate([numpy.ones((len(P), 1)), P], axis=1)
                coef = numpy.linalg.lstsq(M, X, rcond=None)[0]
                if numpy.abs(M @ coef - X).max() > 1e-12:
                    raise core.HarnessError('calibration: element {} of {} is not affine'.format(i, base['name']))
                self.cellphys[cid] = coef

    def phys(self, cid, local):
        b = self.base
        local = numpy.asarray(local, dtype=float)
        if b['cal'] is None:
            idx = numpy.array(cid[1:], dtype=float)  # cid = (root index, cell index per dimension)
            return b['G'](idx + local)
        coef = self.cellphys[cid]
        return coef[0] + local @ coef[1:]


# ---------------------------------------------------------------- (c)

class Bad(Exception):
    def __init__(self, key, what):
        self.key, self.what = key, what


def topo_kind(T):
    return type(T).__name__.replace('Topology', '') + '<' + type(T.transforms).__name__.replace('Transforms', '') + '>'


def check_sample(fam, ancestors, T, scheme, degree, res=None, is_interface=False):
    '''ancestors: list of (name, topology) that T derives from (coarser or equal, covering T); raises Bad'''
    from nutils import function
    base = fam.base
    geom = base['geom']
    smp = T.sample(scheme, degree)
    tk = topo_kind(T)
    has_opp = is_interface  # structured boundaries carry opposites that point outside the domain: opposite(.) is only defined on interfaces
    funcs = [T.f_index, T.f_coords, geom]
    for name, D in ancestors:
        funcs += [D.f_index, D.f_coords]
    if has_opp:
        funcs += [function.opposite(geom), function.jump(geom)]
        for name, D in ancestors:
            if D.ndims == base['topo'].ndims:
                funcs += [function.opposite(D.f_index), function.opposite(D.f_coords)]
    try:
        vals = smp.eval(funcs)
    except Exception as e:
        raise Bad('eval:raise:{}:{}'.format(type(e).__name__, tk), 'sample.eval raised {!r}'.format(e))
    vals = [numpy.asarray(v) for v in vals]
    own_i, own_x, gv = vals[:3]
    geoT = Geo(T)
    geoO = Geo(T, opposite=True) if has_opp else None
    geoD = [(name, D, Geo(D)) for name, D in ancestors]
    neval = 0
    for j in range(len(T)):
        idx = numpy.asarray(smp.getindex(j))
        pts = numpy.asarray(smp.points[j].coords, dtype=float)
        if len(idx) != len(pts):
            raise Bad('own:getindex:' + tk, 'element {}: getindex has {} entries for {} points'.format(j, len(idx), len(pts)))
        # (c1) own index / coordinates
        if not (own_i[idx] == j).all():
            raise Bad('own:index:' + tk, 'f_index evaluates to {} on element {} of its own sample'.format(sorted(set(own_i[idx].tolist())), j))
        if own_x[idx].shape != pts.shape or numpy.abs(own_x[idx] - pts).max(initial=0) > ATOL:
            raise Bad('own:coords:' + tk, 'f_coords on element {} of its own sample differs from the sample points by {}'.format(j, numpy.abs(own_x[idx] - pts).max()))
        neval += 1
        sides = [('', geoT, 0)]
        if has_opp:
            sides.append(('opposite:', geoO, 1))
        physs = []
        for sname, geo, iside in sides:
            cid, A, b, ref, chain = geo.elems[j]
            if cid not in fam.cellref:
                raise Bad('model:cell:' + tk, '{}element {} refers to unknown base cell {}'.format(sname, j, cid))
            local = pts @ A.T + b
            X = fam.phys(cid, local)
            physs.append(X)
            got = gv[idx] if iside == 0 else vals[3 + 2 * len(ancestors)][idx]
            if got.shape != X.shape or numpy.abs(got - X).max(initial=0) > ATOL:
                raise Bad('{}geom:{}'.format(sname, tk), '{}geom on element {} is off by {} from the chain model'.format(sname, j, numpy.abs(got - X).max()))
            # (c2) ancestors
            k = 0
            for ia, (name, D, gD) in enumerate(geoD):
                if iside == 1:
                    if D.ndims != base['topo'].ndims:
                        continue
                    gi = vals[5 + 2 * len(ancestors) + 2 * k][idx]
                    gx = vals[6 + 2 * len(ancestors) + 2 * k][idx]
                    k += 1
                else:
                    gi = vals[3 + 2 * ia][idx]
                    gx = vals[4 + 2 * ia][idx]
                cR = region_centroid(chain, D.ndims, fam.cellref[cid])
                if cR is None:
                    if res is not None:
                        res.count('model_undecided')
                    continue
                cT = A @ (numpy.asarray(ref.vertices, dtype=float).mean(axis=0) if ref.ndims else numpy.zeros(0)) + b
                for ip in range(len(pts)):
                    # first into the relative interior of the T element, then (much less) into the region it hangs from
                    q = local[ip] + EPS_NUDGE * (cT - local[ip])
                    q = q + EPS_NUDGE * 1e-2 * (cR - q)
                    hits = gD.find(cid, q)
                    if len(hits) != 1:
                        if res is not None:
                            res.count('model_undecided')
                        continue
                    xi = gD.invert(hits[0], local[ip][None])[0]
                    neval += 1
                    if gi[ip] != hits[0]:
                        raise Bad('{}index:{}:{}'.format(sname, topo_kind(D), tk), '{}{}.f_index = {} at point {} of element {} but the point (cell {}, local {}) lies in element {}'.format(
                            sname, name, gi[ip], ip, j, cid, local[ip].tolist(), hits[0]))
                    if numpy.abs(gx[ip] - xi).max(initial=0) > ATOL:
                        raise Bad('{}coords:{}:{}'.format(sname, topo_kind(D), tk), '{}{}.f_coords = {} at point {} of element {} but the inverse image is {}'.format(
                            sname, name, gx[ip].tolist(), ip, j, xi.tolist()))
        if has_opp:
            # both sides of the interface: same physical location, modulo the period
            jv = vals[4 + 2 * len(ancestors)][idx]
            d = physs[1] - physs[0]
            if base['cal'] is None:
                P = numpy.array([abs(base['G'](numpy.eye(len(base['period']))[kk] * base['period'][kk]) - base['G'](numpy.zeros(len(base['period']))))[kk] if base['period'][kk] else 0. for kk in range(len(base['period']))])
            else:
                P = numpy.zeros(d.shape[-1])
            for kk in range(d.shape[-1]):
                ok = numpy.abs(d[:, kk]) < ATOL
                if P[kk]:
                    ok |= numpy.abs(numpy.abs(d[:, kk]) - P[kk]) < ATOL
                if not ok.all():
                    raise Bad('interface:location:' + tk, 'the two sides of interface element {} are at different physical locations: {} vs {}'.format(j, physs[0].tolist(), physs[1].tolist()))
            # sign convention of jump is opposite - self or self - opposite; either way its magnitude must match the model
            if jv.shape != d.shape or numpy.abs(numpy.abs(jv) - numpy.abs(d)).max(initial=0) > ATOL:
                raise Bad('interface:jump:' + tk, 'jump(geom) = {} on interface element {}, model {}'.format(jv.tolist(), j, d.tolist()))
            if not P.any() and numpy.abs(jv).max(initial=0) > ATOL:
                raise Bad('interface:jump:' + tk, 'jump(geom) = {} on interface element {}'.format(jv.tolist(), j))
    return neval


_STATES = {}


def build_state(basename, ops, gname='affine'):
    key = basename, tuple(ops), gname
    if key not in _STATES:
        if len(_STATES) > 4:
            _STATES.clear()
        _STATES[key] = _build_state(basename, ops, gname)
    return _STATES[key]


def _build_state(basename, ops, gname='affine'):
    '''returns (family, [(name, topo) ...] prefix states incl. the last) or None if a topology operation is not applicable / raises'''
    base = build_base(basename, gname)
    fam = Family(base)
    T = base['topo']
    states = [('base', T)]
    for k, op in enumerate(ops):
        try:
            T = apply_topo_op(T, op)
            if T is None:
                return None
            len(T), T.transforms, T.opposites, T.references
        except Exception:
            return None
        states.append(('/'.join(ops[:k + 1]), T))
    return fam, states


SCHEMES = [('gauss', 2), ('bezier', 2)]


def check_state(basename, ops, res=None):
    'returns None or (key, what)'
    st = build_state(basename, ops)
    if st is None:
        return 'inapplicable'
    fam, states = st
    T = states[-1][1]
    if len(T) == 0:
        return 'empty'
    ancestors = states[:-1]
    # a sibling target: the facets of D, refined, lie in the elements of D.refined although D.refined is not an ancestor;
    # their chains are spelled (cell, edge, child-of-edge), so the lookup has to re-spell them as (cell, child, edge)
    if len(ops) >= 2 and ops[-1] == 'refined' and ops[-2] in FACET_OPS:
        try:
            sib = apply_topo_op(states[len(ops) - 2][1], 'refined')
            len(sib), sib.transforms, sib.references
        except Exception:
            sib = None
        if sib is not None and len(sib):
            ancestors = ancestors + [('/'.join(ops[:-2] + ['refined']) + '(sibling)', sib)]
    n = 0
    for scheme, degree in SCHEMES:
        try:
            n += check_sample(fam, ancestors, T, scheme, degree, res, 'interfaces' in ops)
        except Bad as b:
            return b.key, '{} {} sample {}{}: {}'.format(basename, ops, scheme, degree, b.what)
    return n


# ---------------------------------------------------------------- (d) locate

LOC_VARIANTS = [dict(tol=1e-10), dict(eps=1e-10), dict(tol=1e-4, eps=1e-6), dict(eps=.05)]


def ref_probe(ref):
    'reference points of an element: interior, vertex, edge midpoint'
    v = numpy.asarray(ref.vertices, dtype=float)
    n = type(ref).__name__
    nd = ref.ndims
    if n == 'TriangleReference':
        interior = numpy.array([.2, .3])
    else:
        interior = numpy.array([.3, .4, .35][:nd])
    out = [('interior', interior), ('vertex', v[0])]
    if nd >= 1:
        out.append(('edgemid', (v[0] + v[1]) / 2 if nd > 1 else v[-1]))
    return out


def locate_targets(fam, T, with_boundary_points):
    '''targets as (class, physical point, certainly interior?) built from the chain model'''
    geo = Geo(T)
    targets = []
    n = len(T)
    sel = range(n) if n <= 6 else sorted({0, 1, n // 2, n - 2, n - 1})
    for j in sel:
        cid, A, b, ref, chain = geo.elems[j]
        for cls, p in ref_probe(ref):
            if cls != 'interior' and not with_boundary_points:
                continue
            X = fam.phys(cid, A @ p + b)
            targets.append((cls, X, cls == 'interior'))
    pts = numpy.array([t[1] for t in targets])
    # drop duplicates (shared vertices): keep first
    keep = []
    for i, t in enumerate(targets):
        if all(numpy.abs(t[1] - targets[k][1]).max() > .02 for k in keep):
            keep.append(i)
    targets = [targets[i] for i in keep]
    hi = pts.max(axis=0)
    lo = pts.min(axis=0)
    return targets, lo, hi


def check_locate(basename, ops, gname, variant, skip_missing, tset, maxdist, nprocs, res=None):
    '''one locate call; returns None / (key, what) / 'inapplicable' / outcome string'''
    from nutils import parallel
    from nutils.topology import LocateError
    st = build_state(basename, ops, gname)
    if st is None:
        return 'inapplicable'
    fam, states = st
    T = states[-1][1]
    if len(T) == 0:
        return 'inapplicable'
    base = fam.base
    geom = base['geom']
    tk = topo_kind(T)
    targets, lo, hi = locate_targets(fam, T, tset == 'on')
    nd = len(lo)
    tol = variant.get('tol', 0)
    eps = variant.get('eps', 0)
    bound = max(tol, eps * base['lmax']) * 1.001 + 1e-11
    # order: interleave so that consecutive targets belong to different elements
    order = list(range(len(targets)))
    order = order[1::2][::-1] + order[0::2]
    tg = [targets[i] for i in order]
    if tset == 'just':
        d = numpy.zeros(nd)
        d[0] = 1e-7
        tg.insert(1, ('just-outside', hi + d, False))
    elif tset == 'far':
        tg.insert(1, ('far-outside', hi + 10., False))
        tg.append(('far-outside', lo - 7., False))
    coords = numpy.array([t[1] for t in tg])
    kwargs = dict(variant, skip_missing=skip_missing)
    if maxdist:
        kwargs['maxdist'] = maxdist
    try:
        with parallel.maxprocs(nprocs):
            smp = T.locate(geom, coords, **kwargs)
    except LocateError as e:
        # raising is only acceptable if something may legitimately be missing
        if skip_missing:
            return 'locate:skip-missing-raised:' + ('manifold' if T.ndims < nd else 'volume'), 'locate(skip_missing=True) raised LocateError {!r}'.format(e)
        if tset == 'in':
            return 'locate:interior-not-found:' + ('manifold' if T.ndims < nd else 'volume') + ':' + type(T).__name__, 'LocateError {!r} although all targets are element-interior points'.format(e)
        return 'raised'
    except Exception as e:
        return 'locate:raise:{}:{}'.format(type(e).__name__, tk), 'locate raised {!r}'.format(e)
    try:
        Y, fi, fx = [numpy.asarray(v) for v in smp.eval([geom, T.f_index, T.f_coords])]
    except Exception as e:
        return 'locate:eval-raise:{}:{}'.format(type(e).__name__, tk), 'evaluating the located sample raised {!r}'.format(e)
    if Y.ndim == 1:
        Y = Y[:, None]
    if not skip_missing and len(Y) != len(coords):
        return 'locate:count:' + ('manifold' if T.ndims < nd else 'volume'), 'located sample has {} points for {} targets'.format(len(Y), len(coords))
    # in-order matching against the targets
    manifold = 'manifold' if T.ndims < nd else 'volume'
    which = 'tol' if not eps else 'eps' if not tol else 'tol+eps'
    positional = not skip_missing or len(Y) == len(coords)  # nothing was skipped: point k belongs to target k
    pos = 0
    matched = []
    for k in range(len(Y)):
        found = None
        rng = range(pos, len(coords)) if positional is False else [k]
        for m in rng:
            if numpy.linalg.norm(Y[k] - coords[m]) <= bound:
                found = m
                break
        if found is None:
            dist = numpy.linalg.norm(coords - Y[k], axis=1)
            m = int(dist.argmin())
            others = [mm for mm in range(len(coords)) if mm != k and dist[mm] <= bound]
            if not positional and dist[m] <= bound:
                return 'locate:order:' + manifold, 'located point {} maps to {} which is target {}: not in input order (targets {})'.format(k, Y[k].tolist(), m, [t[0] for t in tg])
            if positional and others and any(numpy.linalg.norm(Y[kk] - coords[k]) <= bound for kk in range(len(Y)) if kk != k):
                return 'locate:order:' + manifold, 'located point {} maps to {} which is target {}, and target {} is the image of another point: not in input order'.format(k, Y[k].tolist(), others[0], k)
            mm = k if positional else m
            return 'locate:tolerance:{}:{}'.format(manifold, 'target-on-topology' if tg[mm][0] in ('interior', 'vertex', 'edgemid') else 'target-off-topology'), 'located point {} maps to {}; {} target {} ({}) is at distance {} > {} (tol={}, eps={})'.format(
                k, Y[k].tolist(), 'its' if positional else 'the nearest', coords[mm].tolist(), tg[mm][0], dist[mm], bound, tol, eps)
        matched.append(found)
        pos = found + 1
    # located points lie in their element
    slack = max(tol, eps) / .5 * 1.01 + 1e-9
    for k in range(len(Y)):
        ref = T.references[int(fi[k])]
        if not ref.inside(fx[k], slack):
            return 'locate:outside-element:' + manifold, 'target {} ({}) was located at local point {} of element {}, outside the element'.format(coords[matched[k]].tolist(), tg[matched[k]][0], fx[k].tolist(), int(fi[k]))
    if skip_missing:
        missing = [m for m in range(len(coords)) if m not in matched]
        for m in missing:
            if tg[m][2] and not maxdist:
                return 'locate:interior-dropped:' + manifold, 'skip_missing dropped the element-interior target {}'.format(coords[m].tolist())
    return 'located:{}/{}'.format(len(Y), len(coords))


def locate_ops(tier):
    seqs = [[], ['refined'], ['rb_first'], ['take_evens'], ['subset'], ['boundary']]
    if tier != 'quick':
        seqs += [['slice'], ['rb_first', 'boundary'], ['refined', 'rb_first'], ['rb_first', 'rb_last2'], ['interfaces'], ['subset', 'refined'], ['refined', 'boundary'], ['take_evens', 'refined']]
    return seqs


def locate_calls(tier):
    'the (variant, skip_missing, target set, maxdist, nprocs) combinations'
    out = []
    if tier == 'quick':
        for iv in range(len(LOC_VARIANTS)):
            for tset in ('in', 'on', 'just', 'far'):
                out.append((iv, False, tset, 0, 1))
        out += [(0, True, 'far', 0, 1), (3, True, 'just', 0, 1), (1, True, 'on', 0, 1)]
        out += [(0, False, 'in', 1.2, 1), (0, True, 'far', 1.2, 1)]
        out += [(0, False, 'in', 0, 2), (0, True, 'far', 0, 2), (3, False, 'on', 0, 2)]
        return out
    for iv, v in enumerate(LOC_VARIANTS):
        for skip in (False, True):
            for tset in ('in', 'on', 'just', 'far'):
                out.append((iv, skip, tset, 0, 1))
                if iv in (0, 3):
                    out.append((iv, skip, tset, 0, 2))
                if iv == 0:
                    out.append((iv, skip, tset, 1.2, 1))
    return out


LOCATE_SHARDS = {'quick': [('line3', 'affine'), ('rect22', 'affine'), ('rect22', 'quad'), ('rect22p0', 'affine'), ('tri2', 'affine'), ('mixed2', 'affine')],
                 'thorough': [('line3', 'affine'), ('line3', 'quad'), ('line3p', 'affine'), ('rect22', 'affine'), ('rect22', 'quad'), ('rect22p0', 'affine'), ('rect23p1', 'affine'),
                              ('rect23p1', 'quad'), ('tri2', 'affine'), ('mixed2', 'affine')]}


# ---------------------------------------------------------------- shards / run / replay

def shards(tier):
    out = []
    for b in BASES:
        seqs = op_sequences(tier)
        nchunk = 2 if tier == 'quick' else 4
        for k in range(nchunk):
            out.append({'kind': 'topo', 'base': b, 'chunk': k, 'nchunk': nchunk})
    nchunk = 2 if tier == 'quick' else 4
    for b, g in LOCATE_SHARDS[tier]:
        for k in range(nchunk):
            out.append({'kind': 'locate', 'base': b, 'geom': g, 'chunk': k, 'nchunk': nchunk})
    return out


def run(spec, tier, res):
    if spec['kind'] == 'topo':
        seqs = op_sequences(tier)[spec['chunk']::spec['nchunk']]
        for ops in seqs:
            w = {'kind': 'topo', 'base': spec['base'], 'ops': ops}
            try:
                r = check_state(spec['base'], ops, res)
            except core.HarnessError:
                raise
            if r == 'inapplicable' or r == 'empty':
                res.count('topology_ops_inapplicable')
                continue
            if isinstance(r, tuple):
                res.violation('topo:' + r[0], r[1], w)
                continue
            res.count('evaluations', r)
            res.count('states')
            res.count('transitions', len(ops))
            res.count('traces_validated_against_impl')
            if ops:
                res.distinct('distinct_nontrivial', json.dumps(w))
            if len(res.samples) < 1 and len(ops) == 2:
                res.sample({'part': 'topo', 'base': spec['base'], 'ops': ops, 'point_evaluations': r})
        return
    calls = locate_calls(tier)
    seqs = locate_ops(tier)[spec['chunk']::spec['nchunk']]
    for ops in seqs:
        for iv, skip, tset, maxdist, nprocs in calls:
            w = {'kind': 'locate', 'base': spec['base'], 'geom': spec['geom'], 'ops': ops, 'variant': iv, 'skip_missing': skip, 'tset': tset, 'maxdist': maxdist, 'nprocs': nprocs}
            r = check_locate(spec['base'], ops, spec['geom'], LOC_VARIANTS[iv], skip, tset, maxdist, nprocs, res)
            if r == 'inapplicable':
                res.count('topology_ops_inapplicable')
                break
            if isinstance(r, tuple):
                res.violation(r[0], r[1], w)
                continue
            res.count('evaluations')
            res.count('locate_calls')
            res.count('transitions')
            res.count('traces_validated_against_impl')
            if (iv, skip, tset, maxdist, nprocs) == calls[0]:
                res.count('states')
            res.distinct('distinct_outcomes', 'locate:' + r.split(':')[0] + ':' + tset + (':skip' if skip else ''))
            res.distinct('distinct_nontrivial', json.dumps(w))
            if len(res.samples) < 1 and tset == 'far' and skip:
                res.sample({'part': 'locate', 'witness': w, 'outcome': r})


def replay(w):
    if w['kind'] == 'topo':
        r = check_state(w['base'], w['ops'])
        return '{}: {}'.format(*r) if isinstance(r, tuple) else None
    r = check_locate(w['base'], w['ops'], w['geom'], LOC_VARIANTS[w['variant']], w['skip_missing'], w['tset'], w['maxdist'], w['nprocs'])
    return '{}: {}'.format(*r) if isinstance(r, tuple) else None
