'''C07 case generators: for every NumPy API entry a deterministic, exhaustive
(inside stated bounds) list of call trees.  GENERATORS maps the dotted NumPy
name to its generator; an entry of function.HANDLED_FUNCTIONS without a
generator is reported as uncovered by the check.

A case is {'func': name, 'tag': input class, 'expr': node}.  The tag names the
class of INPUT (never the outcome) and becomes part of a violation key.
'''

import itertools
import numpy
from .c07_space import AVAILABLE, KINDS

SH = [(), (1,), (3,), (2, 1), (1, 3), (2, 3), (2, 2)]
DT = 'bifc'


def A(kind, shape, dtype, variant='any', slot=0):
    return ['arr', kind, list(shape), dtype, variant, slot]


def OP(fname, *args, **kw):
    return ['op', fname, list(args), kw]


def L(v):
    return ['lit', v]


def TUP(*nodes):
    return ['tup', list(nodes)]


def LST(*nodes):
    return ['lst', list(nodes)]


def case(func, tag, expr):
    return {'func': func, 'tag': tag, 'expr': expr}


def kinds_for(dtype, with_raw=False):
    return [k for k in (KINDS + ['raw'] if with_raw else KINDS) if dtype in AVAILABLE[k]]


def kind_at(dtype, n):
    ks = kinds_for(dtype)
    return ks[n % len(ks)]


def kindpairs(d1, d2):
    return [(k1, k2) for k1 in kinds_for(d1, True) for k2 in kinds_for(d2, True) if not (k1 == 'raw' and k2 == 'raw')]


def shp(s):
    return 'x'.join(map(str, s)) or 's'


def dcls(dts):
    'coarse element class of a group of operands: bool arithmetic is its own class'
    return 'bool' if all(d == 'b' for d in dts) else 'num'


class Rot:
    '''independent rotations (kind, slot, flag, dtype, free choice): one shared counter would couple them
    (e.g. three draws per case -> always the same of three kinds)'''

    def __init__(self):
        self.k = self.s = self.f = self.d = self.p = -1

    def kind(self, dtype):
        self.k += 1
        ks = kinds_for(dtype)
        return ks[self.k % len(ks)]

    def slot(self):
        self.s += 1
        return self.s % 3

    def flag(self):
        self.f += 1
        return self.f % 2

    def dtype(self):
        self.d += 1
        return DT[(self.d + self.d // 4) % 4]

    def pick(self, seq):
        self.p += 1
        return seq[(self.p + self.p // len(seq)) % len(seq)]


class Counter:
    def __init__(self, start=0):
        self.n = start - 1

    def __call__(self):
        self.n += 1
        return self.n


# ------------------------------------------------------------------ shape / ndim / size

def gen_shapefn(fname, tier):
    n = Counter()
    R = Rot()
    for s in SH + [(2, 2, 3)]:
        for d in DT:
            for k in (kinds_for(d) if s in ((), (2, 3)) else [R.kind(d)]):
                yield case(fname, 'plain', OP(fname, A(k, s, d)))


# ------------------------------------------------------------------ unary

UNARY = {
    'numpy.positive': 'any', 'numpy.negative': 'any', 'numpy.reciprocal': 'nz', 'numpy.sqrt': 'pos', 'numpy.square': 'any',
    'numpy.absolute': 'any', 'numpy.sign': 'any', 'numpy.sin': 'any', 'numpy.cos': 'any', 'numpy.tan': 'any',
    'numpy.arcsin': 'unit', 'numpy.arccos': 'unit', 'numpy.arctan': 'any', 'numpy.sinc': 'any', 'numpy.cosh': 'any',
    'numpy.sinh': 'any', 'numpy.tanh': 'any', 'numpy.arctanh': 'unit', 'numpy.exp': 'any', 'numpy.log': 'pos',
    'numpy.log2': 'pos', 'numpy.log10': 'pos', 'numpy.logical_not': 'any', 'numpy.invert': 'any', 'numpy.conjugate': 'any',
    'numpy.real': 'any', 'numpy.imag': 'any',
}


def gen_unary(fname, tier, variant=None):
    variant = variant or UNARY[fname]
    n = Counter()
    R = Rot()
    for s in SH:
        for d in DT:
            for k in kinds_for(d):
                yield case(fname, unary_tag(fname, d), OP(fname, A(k, s, d, variant, R.slot())))
            if d == 'c' and variant == 'pos':  # branch cut side: negative real part too
                yield case(fname, d, OP(fname, A('const', s, d, 'any', 1)))


# ------------------------------------------------------------------ binary with broadcasting and promotion

BINARY = {
    'numpy.add': ('any', 'any'), 'numpy.subtract': ('any', 'any'), 'numpy.multiply': ('any', 'any'),
    'numpy.true_divide': ('any', 'nz'), 'numpy.floor_divide': ('any', 'nz'), 'numpy.mod': ('any', 'nz'), 'numpy.divmod': ('any', 'nz'),
    'numpy.hypot': ('any', 'any'), 'numpy.arctan2': ('any', 'nz'),
    'numpy.greater': ('any', 'any'), 'numpy.equal': ('any', 'any'), 'numpy.less': ('any', 'any'),
    'numpy.minimum': ('any', 'any'), 'numpy.maximum': ('any', 'any'),
    'numpy.logical_and': ('any', 'any'), 'numpy.bitwise_and': ('any', 'any'), 'numpy.logical_or': ('any', 'any'), 'numpy.bitwise_or': ('any', 'any'),
}


REPR_PAIRS = [((), ()), ((2, 3), ()), ((3,), (2, 1)), ((2, 3), (1, 3)), ((1,), (2, 2)), ((2, 3), (2, 3)), ((2, 3), (2, 2))]


def pair_tag(fname, d1, d2):
    'input class of a binary call: the dtype pair, except for the boolean classes that share one root cause across entries'
    if d1 + d2 == 'bb':
        if fname in ('numpy.floor_divide', 'numpy.mod', 'numpy.divmod', 'op.floordiv', 'op.mod', 'divmod'):
            return '@bool-floordiv-mod'
        if fname in ('numpy.greater', 'numpy.less', 'op.gt', 'op.lt'):
            return '@bool-order'
    return d1 + d2


def unary_tag(fname, d):
    if fname in ('numpy.absolute', 'op.abs') and d == 'b':
        return '@abs-bool'
    if fname == 'numpy.reciprocal' and d in 'bi':
        return '@int-reciprocal'
    return d


def gen_binary(fname, tier, variants=None, shapes=None, intpow=False):
    v1, v2 = variants or BINARY[fname]
    n = Counter()
    R = Rot()
    rot = (0,) if tier == 'quick' else (0, 11, 23)
    dpairs = [(d1, d2) for d1 in DT for d2 in DT]
    for s1 in shapes or SH:
        for s2 in shapes or SH:
            full = tier != 'quick' or (s1, s2) in REPR_PAIRS
            j = n()
            for d1, d2 in dpairs if full else [dpairs[(5 * j + 4 * q + q // 4) % 16] for q in range(4)]:
                pairs = kindpairs(d1, d2)
                if intpow and d1 in 'bi' and d2 in 'bi':
                    # an integer power needs a provably non-negative exponent (numpy: value dependent error)
                    pairs = [(k1, k2) for k1, k2 in pairs if k2 != 'arg']
                i = n()
                for r in rot:
                    k1, k2 = pairs[(i + r) % len(pairs)]
                    yield case(fname, pair_tag(fname, d1, d2), OP(fname, A(k1, s1, d1, v1, 0), A(k2, s2, d2, v2, 1)))
    # ties and identical operands (exact values): comparisons and min/max are decided by equality there
    for s in ((3,), (2, 3)):
        for d in DT:
            for k in kinds_for(d):
                if intpow and d in 'bi' and k == 'arg':
                    continue
                x = A(k, s, d, v2, 0)
                yield case(fname, pair_tag(fname, d, d), OP(fname, x, x))
    # python and numpy scalars next to a function array
    for s in ((), (2, 3)):
        for d in DT:
            for lit in (True, 2, .5, 1 + 2j):
                k = R.kind(d)
                lt = 'bifc'[[bool, int, float, complex].index(type(lit))]
                node = ['cplx', lit.real, lit.imag] if lt == 'c' else L(lit)
                yield case(fname, pair_tag(fname, d, lt), OP(fname, A(k, s, d, v1, 0), node))
                if not (intpow and d in 'bi' and lt in 'bi' and k == 'arg'):
                    yield case(fname, pair_tag(fname, lt, d), OP(fname, node, A(k, s, d, v2, 1)))
                if s and lt != 'c':
                    yield case('npscalar', '@npscalar', OP(fname, A(k, s, d, v1, 0), ['npscalar', lt, lit]))


def gen_power(fname, tier):
    yield from gen_binary(fname, tier, ('pos', 'any'), intpow=True)
    yield from gen_binary(fname, tier, ('any', 'exp'), shapes=[(), (3,), (2, 1), (2, 3)], intpow=True)


# ------------------------------------------------------------------ reductions

def axis_specs(ndim):
    'every axis, negative and out of range by one, every axis tuple, the empty tuple and a repeated axis'
    out = [('none', None)]
    for a in range(-ndim - 1, ndim + 1) if ndim else ():
        ok = -ndim <= a < ndim
        out.append(('int' if ok else 'int-oor', L(a)))
    for r in range(2, ndim + 1):
        for t in itertools.combinations(range(ndim), r):
            out.append(('tuple{}'.format(r), TUP(*map(L, t))))
            if r == 2:
                out.append(('tuple2', TUP(L(t[1] - ndim), L(t[0]))))
    out.append(('tuple0', TUP()))
    if ndim >= 1:
        out.append(('tuple1', TUP(L(ndim - 1))))
        out.append(('tuple-repeated', TUP(L(0), L(-ndim))))
    return out


def gen_reduce(fname, tier, method=False):
    n = Counter()
    R = Rot()
    for s in SH + [(2, 2, 3)]:
        for d in DT:
            for tag, ax in axis_specs(len(s)):
                for k in (kinds_for(d) if tier != 'quick' else [R.kind(d)]):
                    x = A(k, s, d, 'any' if fname != 'numpy.prod' else 'nz', R.slot())
                    dc = ':' + dcls(d)
                    if ax is None:
                        yield case(fname, 'noaxis' + dc, OP(fname, x))
                        yield case(fname, 'axis-none' + dc, OP(fname, x, L(None)))
                    elif R.flag():
                        yield case(fname, 'axis-' + tag + dc, OP(fname, x, ax))
                    else:
                        yield case(fname, 'axis-' + tag + dc, OP(fname, x, axis=ax))


def gen_norm(fname, tier):
    n = Counter()
    R = Rot()
    for s in SH + [(2, 2, 3)]:
        for d in DT:
            for tag, ax in axis_specs(len(s)):
                if tag in ('tuple0', 'tuple3', 'tuple-repeated'):
                    continue  # numpy.linalg.norm accepts None, an int or a 2-tuple; anything else is an argument error, not a shape class
                k = R.kind(d)
                x = A(k, s, d, 'any', R.slot())
                if ax is None:
                    yield case(fname, 'noaxis', OP(fname, x))
                else:
                    yield case(fname, 'axis-' + tag, OP(fname, x, axis=ax))
    yield case(fname, 'ord', OP(fname, A('const', (3,), 'f'), L(1)))
    yield case(fname, 'ord', OP(fname, A('geom', (2, 2), 'f'), L('fro')))


# ------------------------------------------------------------------ indexing

def _slices():
    vals = [None, 0, 1, -1, 2]
    return [['sl', a, b, c] for a in vals for b in vals for c in vals]


INT_ARRAYS = [['np', 'i', [0, 1]], ['np', 'i', [1, 0, 1]], ['np', 'i', [-1, 0]], ['np', 'i', [[0, 1], [1, 0]]], ['np', 'i', [0, 2]],
              ['np', 'i', [-3]], ['np', 'i', []], L([1, 0]), L([0]), ['np', 'i', 1]]
BOOL_ARRAYS = [['np', 'b', [True, False]], ['np', 'b', [True, True]], ['np', 'b', [False, False]], ['np', 'b', [True, False, True]],
               ['np', 'b', [False, False, True]], ['np', 'b', [[True, False, True], [False, True, True]]],
               ['np', 'b', [[True, False], [False, True]]], L([False, True])]
FN_INDICES = [A('ielem', (), 'i', 'idx', 0), A('ielem', (), 'i', 'nidx', 1), A('ielem', (2,), 'i', 'idx', 0), A('const', (2,), 'i', 'idx', 1), A('const', (), 'i', 'nidx', 0), A('ielem', (2,), 'i', 'zidx', 0), A('const', (2,), 'i', 'zidx', 1)]


def _item_value(it):
    t = it[0]
    if t == 'lit':
        return it[1]
    if t == 'sl':
        return slice(it[1], it[2], it[3])
    if t == 'np':
        return numpy.array(it[2], dtype={'b': bool, 'i': int}[it[1]])
    return None


def _slice_needs_clamp(sl, n):
    'start/stop outside [-n, n], or start beyond stop in the direction of the step: numpy clamps / returns an empty selection'
    a, b, c = sl[1], sl[2], sl[3]
    if c == 0:
        return False
    if any(x is not None and not -n <= x <= n for x in (a, b)):
        return True
    step = 1 if c is None else c
    norm = lambda x: x + n if x < 0 else x
    if step > 0:
        start = 0 if a is None else norm(a)
        stop = n if b is None else norm(b)
        return start > stop
    start = n - 1 if a is None else norm(a)
    stop = -1 if b is None else norm(b)
    return start < stop


def index_class(items, shape):
    '''input class of an index expression relative to the indexed shape (pure function of the input); one class per
    expression, the first that applies of: ell2, toomany, bool-mask, multi-adv, slice-clamp, then the remaining features'''
    feats = set()
    nell = sum(1 for it in items if it[0] == 'ell')
    if nell > 1:
        return 'ell2'
    consume = []
    for it in items:
        t = it[0]
        if t in ('ell', 'new'):
            consume.append(0)
        elif t == 'np' and it[1] == 'b':
            consume.append(max(1, numpy.ndim(it[2])))
        elif t == 'lit' and isinstance(it[1], bool):
            consume.append(0)
        else:
            consume.append(1)
    total = sum(consume)
    if total > len(shape):
        return 'toomany'
    axis = 0
    nadv = 0
    for it, c in zip(items, consume):
        t = it[0]
        if t == 'ell':
            axis += len(shape) - total
            continue
        if t == 'new':
            continue
        n = shape[axis] if axis < len(shape) else 1
        v = _item_value(it)
        if t == 'arr':
            nadv += 1
            feats.add('fnidx')
        elif t == 'sl':
            if it[3] == 0:
                feats.add('step0')
            elif _slice_needs_clamp(it, n):
                feats.add('slice-clamp' if it[3] in (None, 1) else 'slice-clamp-step')
        elif isinstance(v, bool) or (isinstance(v, (list, numpy.ndarray)) and numpy.asarray(v).dtype == bool):
            nadv += 1
            feats.add('bool-mask')
        elif isinstance(v, int):
            if not -n <= v < n:
                feats.add('int-oor')
        else:
            nadv += 1
            arr = numpy.asarray(v)
            if arr.size and ((arr < -n).any() or (arr >= n).any()):
                feats.add('arr-oor')
        axis += c
    if nadv > 1:
        feats.add('multi-adv')
    elif nadv == 1:
        feats.add('adv1')
        # numpy: integers next to an index array are advanced indices too; when the advanced indices are not
        # adjacent the broadcast dimensions move to the front of the result
        pos = [i for i, it in enumerate(items) if it[0] in ('arr', 'np') or (it[0] == 'lit' and (isinstance(it[1], list) or type(it[1]) in (int, bool)))]
        if pos and pos[-1] - pos[0] + 1 != len(pos):
            feats.add('multi-adv')
    for cls in ('bool-mask', 'multi-adv', 'slice-clamp'):
        if cls in feats:
            return cls
    return '+'.join(sorted(feats)) or 'basic'


def _gi(x, items, shape, bare=False):
    idx = items[0] if bare else TUP(*items)
    return case('getitem', index_class(items, shape), OP('getitem', x, idx))


def gen_getitem(fname, tier):
    n = Counter()
    R = Rot()
    singles = [L(i) for i in range(-4, 4)] + _slices() + [['sl', None, 5, None], ['sl', -5, None, None], ['sl', 3, None, None], ['sl', 4, 5, None], ['sl', None, -4, None], ['ell'], ['new']] + INT_ARRAYS + BOOL_ARRAYS + FN_INDICES + [L(True)]
    full = ['sl', None, None, None]

    def operand(shape, i):
        d = 'ifbc'[(i // 5) % 4] if i % 3 == 0 else 'i'
        return A(kind_at(d, i), shape, d, 'any', i % 3)

    for shape in ((2, 3), (2, 2, 3)):
        # every item at every axis position, bare and in a tuple, and behind an ellipsis
        for it in singles:
            yield _gi(operand(shape, n()), [it], shape, bare=True)
            for pos in range(len(shape)):
                yield _gi(operand(shape, n()), [full] * pos + [it], shape)
            yield _gi(operand(shape, n()), [['ell'], it], shape)
        # combinations of two and three items over reduced alphabets
        r2 = [L(0), L(-1), L(2), full, ['sl', 1, None, None], ['sl', None, -1, None], ['sl', None, None, 2], ['sl', None, None, -1], ['sl', -1, 0, -1],
              ['ell'], ['new'], ['np', 'i', [1, 0]], ['np', 'i', [[0, 1], [1, 1]]], ['np', 'b', [False, True]], ['np', 'b', [True, False, True]], FN_INDICES[0], FN_INDICES[2]]
        r3 = [L(0), L(-1), full, ['sl', 1, None, None], ['sl', None, None, -1], ['ell'], ['new'], ['np', 'i', [1, 0]], ['np', 'b', [False, True]], FN_INDICES[0]]
        if tier != 'quick':
            r3 = r2
        for a in r2:
            for b in r2:
                yield _gi(operand(shape, n()), [a, b], shape)
        for a in r3:
            for b in r3:
                for c in r3:
                    yield _gi(operand(shape, n()), [a, b, c], shape)
    # zero-dimensional and one-dimensional arrays
    for shape in ((), (3,)):
        for it in [L(0), L(-1), L(3), full, ['sl', None, None, -1], ['ell'], ['new'], ['np', 'i', [2, 0]], ['np', 'b', [True, False, True]], FN_INDICES[0]]:
            yield _gi(operand(shape, n()), [it], shape)
        yield _gi(operand(shape, n()), [], shape)


# ------------------------------------------------------------------ reshape / ravel / transpose / swapaxes

def _targets(size):
    fac = [f for f in (1, 2, 3, 4, 6, 12) if size % f == 0]
    out = []
    for r in (1, 2, 3):
        for t in itertools.product(fac, repeat=r):
            if numpy.prod(t) == size:
                out.append(t)
    return out


def gen_reshape(fname, tier):
    n = Counter()
    R = Rot()
    sources = [(6,), (2, 3), (3, 2), (1, 6), (6, 1), (2, 1, 3), (1, 2, 3), (2, 3, 1), (3, 1, 2), (1, 1, 6)]
    for src in sources + ([(2, 2, 3), (12,), (3, 4)] if tier != 'quick' else [(2, 2, 3)]):
        size = int(numpy.prod(src))
        tg = _targets(size)
        for t in tg:
            d = R.dtype()
            x = A(R.kind(d), src, d, 'any', R.slot())
            yield case(fname, 'explicit', OP(fname, x, TUP(*map(L, t))))
            if size == 6 or tier != 'quick':
                for i in range(len(t)):
                    u = list(t)
                    u[i] = -1
                    x = A(R.kind(d), src, d, 'any', R.slot())
                    yield case(fname, 'infer', OP(fname, x, TUP(*map(L, u))))
        x = A(R.kind('f'), src, 'f')
        yield case(fname, 'int', OP(fname, x, L(size)))
        yield case(fname, 'infer', OP(fname, x, L(-1)))
        yield case(fname, 'list', OP(fname, x, LST(L(size // 2), L(2)) if size % 2 == 0 else LST(L(size))))
        for bad in ((4,), (2, 2), (size, 2), (5, -1), (-1, -1), (0,), (size + 1,)):
            yield case(fname, 'badsize', OP(fname, x, TUP(*map(L, bad))))
    for s in ((0,), (2, 0), (0, 3)):
        for t in ((0,), (-1,), (0, 2), (3, 0), (2, -1), (0, -1), (1,)):
            yield case(fname, 'zero-size', OP(fname, A(R.kind('f'), s, 'f'), TUP(*map(L, t))))
    for s in ((), (1,), (1, 1)):
        for t in ((), (1,), (1, 1), (-1,), (1, -1), (2,)):
            yield case(fname, 'size1', OP(fname, A(R.kind('i'), s, 'i'), TUP(*map(L, t))))


def gen_ravel(fname, tier):
    n = Counter()
    R = Rot()
    for s in SH + [(2, 2, 3), (3, 2), (2, 1, 3)]:
        for d in DT:
            for k in kinds_for(d):
                yield case(fname, 'plain', OP(fname, A(k, s, d, 'any', R.slot())))


def gen_transpose(fname, tier):
    n = Counter()
    R = Rot()
    for s in SH + [(2, 2, 3), (3, 1, 2)]:
        nd = len(s)
        perms = [list(p) for p in itertools.permutations(range(nd))]
        for p in perms:
            for neg in (False, True):
                if neg and not nd:
                    continue
                q = [a - nd for a in p] if neg else p
                for d in ('i', 'f') if tier == 'quick' else DT:
                    x = A(R.kind(d), s, d, 'any', R.slot())
                    yield case(fname, 'perm-negative' if neg else 'perm', OP(fname, x, TUP(*map(L, q))))
        for d in DT:
            x = A(R.kind(d), s, d, 'any', R.slot())
            yield case(fname, 'default', OP(fname, x))
            yield case(fname, 'default', OP(fname, x, L(None)))
            yield case(fname, 'list', OP(fname, x, LST(*map(L, perms[-1]))))
        x = A(R.kind('f'), s, 'f')
        bads = [list(range(nd)) + [0], list(range(nd + 1)), [0] * nd if nd > 1 else [1], [nd] + list(range(1, nd)) if nd else [0], list(range(nd - 1)) if nd else [0, 1]]
        for b in bads:
            if sorted(b) != list(range(nd)):
                yield case(fname, 'invalid-perm', OP(fname, x, TUP(*map(L, b))))


def gen_swapaxes(fname, tier):
    n = Counter()
    R = Rot()
    for s in SH + [(2, 2, 3)]:
        nd = len(s)
        for a in range(-nd - 1, nd + 1):
            for b in range(-nd - 1, nd + 1):
                ok = -nd <= a < nd and -nd <= b < nd
                d = R.dtype()
                x = A(R.kind(d), s, d, 'any', R.slot())
                yield case(fname, 'axes' if ok else 'axes-oor', OP(fname, x, L(a), L(b)))


# ------------------------------------------------------------------ stack / concatenate

def gen_join(fname, tier):
    n = Counter()
    R = Rot()
    stack = fname == 'numpy.stack'
    for s in SH + [(2, 2, 3)]:
        nd = len(s)
        hi = nd + 1 if stack else nd
        for axis in range(-hi - 1, hi + 1):
            ok = -hi <= axis < hi and (stack or nd)
            for count in (1, 2, 3):
                for dts in (('i',) * count, ('f',) * count, tuple(R.dtype() for j in range(count))):
                    arrs = [A(R.kind(d), s, d, 'any', j) for j, d in enumerate(dts)]
                    tag = ('axis' if ok else 'axis-oor') + ':' + ('same' if len(set(dts)) == 1 else 'mixed')
                    yield case(fname, tag, OP(fname, LST(*arrs), L(axis)) if R.flag() else OP(fname, LST(*arrs), axis=L(axis)))
        arrs = [A(R.kind('f'), s, 'f', 'any', j) for j in range(2)]
        yield case(fname, 'default-axis', OP(fname, LST(*arrs)))
        yield case(fname, 'tuple-seq', OP(fname, TUP(*arrs), L(0)))
        if not stack:
            yield case(fname, 'axis-none', OP(fname, LST(*arrs), axis=L(None)))
    # different shapes: valid for concatenate along the differing axis only, never for stack
    pairs = [((2, 3), (1, 3)), ((2, 3), (2, 1)), ((2, 3), (2, 2)), ((3,), (1,)), ((2, 1), (2, 2)), ((2, 3), (3,)), ((), (1,)), ((2, 2, 3), (2, 1, 3)), ((1, 3), (2, 3), (1, 3))]
    for shapes in pairs:
        nd = len(shapes[0])
        for axis in range(-nd, max(nd, 1)):
            for dts in ('ii', 'fi', 'cb', 'bf'):
                arrs = [A(R.kind(dts[j % 2]), s, dts[j % 2], 'any', j) for j, s in enumerate(shapes)]
                yield case(fname, 'diffshape:' + ('same' if dts[0] == dts[1] else 'mixed'), OP(fname, LST(*arrs), L(axis)))
    # raw numpy arrays and python lists in the sequence next to function arrays
    for s in ((3,), (2, 3)):
        for d in DT:
            yield case(fname, 'with-raw', OP(fname, LST(A(R.kind(d), s, d), A('raw', s, 'f', 'any', 1)), L(0)))
    yield case(fname, 'with-list', OP(fname, LST(A('geom', (3,), 'f'), L([1., 2., 3.])), L(0)))
    yield case(fname, 'empty-seq', OP(fname, LST(), L(0)))


# ------------------------------------------------------------------ take / compress / repeat / broadcast_to / diagonal / trace

def gen_take(fname, tier):
    n = Counter()
    R = Rot()
    for s in [(3,), (2, 3), (2, 2, 3), (2, 1)]:
        nd = len(s)
        for axis in [None] + list(range(-nd - 1, nd + 1)):
            length = int(numpy.prod(s)) if axis is None else s[axis] if -nd <= axis < nd else 1
            idxs = [L(0), L(-1), L(length), L(-length - 1), ['np', 'i', [length - 1, 0]], ['np', 'i', [[0, -1], [-length, 0]]], L([0, 0, -1]),
                    ['np', 'i', [0, length]], ['np', 'i', []], A('ielem', (), 'i', 'idx', 0), A('ielem', (2,), 'i', 'nidx', 1), A('const', (2, 2), 'i', 'idx', 0),
                    A('ielem', (2,), 'i', 'zidx', 1), A('const', (3,), 'i', 'zidx', 0), A('ielem', (), 'i', 'zidx', 0)]
            for ix in idxs:
                if ix[0] == 'arr' and length < 2:
                    continue
                d = R.dtype()
                x = A(R.kind(d), s, d, 'any', R.slot())
                oor = axis is not None and not -nd <= axis < nd
                v = _item_value(ix)
                cls = 'fnidx' if ix[0] == 'arr' else 'int' if isinstance(v, int) else 'arr'
                if ix[0] != 'arr':
                    arr = numpy.asarray(v)
                    if arr.size == 0:
                        cls += '-empty'
                    elif (arr < -length).any() or (arr >= length).any():
                        cls += '-oor'
                tag = ('axis-none' if axis is None else 'axis-oor' if oor else 'axis') + ':' + cls
                if axis is None:
                    yield case(fname, tag, OP(fname, x, ix))
                else:
                    yield case(fname, tag, OP(fname, x, ix, L(axis)) if R.flag() else OP(fname, x, ix, axis=L(axis)))


def gen_compress(fname, tier):
    n = Counter()
    R = Rot()
    for s in [(3,), (2, 3), (2, 2, 3)]:
        nd = len(s)
        for axis in [None] + list(range(-nd, nd)):
            length = int(numpy.prod(s)) if axis is None else s[axis]
            conds = [[bool((i + j) % 2) for i in range(length)] for j in range(2)] + [[True] * length, [False] * length, [True] * (length - 1), [False] * length + [True], [False] * length + [False]]
            for ic, c in enumerate(conds):
                d = R.dtype()
                x = A(R.kind(d), s, d, 'any', R.slot())
                cls = 'full' if len(c) == length else 'short' if len(c) < length else 'long'
                if not any(c):
                    cls += '-none'
                cond = ['np', 'b', c] if ic % 2 else L(c)
                tag = ('axis-none' if axis is None else 'axis') + ':' + cls
                yield case(fname, tag, OP(fname, cond, x, L(axis)) if axis is not None else OP(fname, cond, x))


def gen_repeat(fname, tier):
    n = Counter()
    R = Rot()
    for s in SH + [(2, 1, 3)]:
        nd = len(s)
        for axis in range(-nd - 1, nd + 1) if nd else ():
            for reps in (1, 2, 3, 0):
                d = R.dtype()
                x = A(R.kind(d), s, d, 'any', R.slot())
                ok = -nd <= axis < nd
                single = ok and s[axis] == 1
                tag = 'axis-oor' if not ok else ('singleton' if single else 'nonsingleton') + (':zero' if reps == 0 else '')
                yield case(fname, tag, OP(fname, x, L(reps), L(axis)))
        yield case(fname, 'axis-none', OP(fname, A(R.kind('f'), s, 'f'), L(2)))


def gen_broadcast_to(fname, tier):
    n = Counter()
    R = Rot()
    targets = [(), (1,), (3,), (2, 1), (1, 3), (2, 3), (2, 2), (2, 2, 3), (1, 2, 3), (3, 2, 3), (2, 3, 1), (0,), (2, 0)]
    for s in SH:
        for t in targets:
            d = R.dtype()
            x = A(R.kind(d), s, d, 'any', R.slot())
            tag = 'zero' if 0 in t else 'plain'
            yield case(fname, tag, OP(fname, x, TUP(*map(L, t))))
        yield case(fname, 'int', OP(fname, A(R.kind('f'), s, 'f'), L(3)))


def gen_diagonal(fname, tier):
    n = Counter()
    R = Rot()
    trace = fname == 'numpy.trace'
    shapes = [(2, 2), (3, 3), (2, 3), (3, 2), (2, 2, 3), (3, 2, 2), (1, 1), (3,), ()] + ([(2, 3, 2)] if tier != 'quick' else [])
    offsets = range(-3, 4) if tier != 'quick' and not trace else (-2, -1, 0, 1, 2) if not trace else (-1, 0, 1, 2)
    for s in shapes:
        nd = len(s)
        x0 = lambda d: A(R.kind(d), s, d, 'any', R.slot())
        for d in DT:
            yield case(fname, ('square' if s[0] == s[1] else 'nonsquare') if nd >= 2 else 'lowdim', OP(fname, x0(d)))
        if nd < 2:
            continue
        for a1 in range(-nd, nd):
            for a2 in range(-nd, nd):
                same = a1 % nd == a2 % nd
                sq = s[a1] == s[a2]
                for off in offsets:
                    d = R.dtype()
                    tag = 'same-axis' if same else 'nonsquare' if not sq else ('@diagonal-offset-beyond' if abs(off) >= s[a1] else 'square:offset' if off else 'square')
                    yield case(fname, tag, OP(fname, x0(d), L(off), L(a1), L(a2)) if R.flag() else OP(fname, x0(d), offset=L(off), axis1=L(a1), axis2=L(a2)))
        yield case(fname, 'axis-oor', OP(fname, x0('f'), L(0), L(0), L(nd)))


# ------------------------------------------------------------------ products

def _contraction_class(s1, s2):
    if not s1 or not s2:
        return 'scalar'
    a = s1[-1]
    b = s2[-2] if len(s2) > 1 else s2[-1]
    return 'match' if a == b else 'mismatch-1' if 1 in (a, b) else 'mismatch'


def contraction_tag(cls, dts):
    'valid contractions of all-boolean operands are one cross-function class (typed int by nutils, bool by numpy)'
    if cls in ('match', 'scalar', 'same-shape', 'same-size-bc') and dcls(dts) == 'bool':
        return '@bool-contraction'
    return cls


def gen_matmul(fname, tier):
    n = Counter()
    R = Rot()
    shapes = [(), (3,), (2,), (2, 3), (3, 2), (2, 2), (1, 3), (3, 1), (2, 2, 3), (2, 3, 2), (1, 3, 2), (3, 3)]
    dps = (('f', 'f'), ('i', 'i'), ('i', 'f'), ('c', 'f'), ('f', 'c'), ('b', 'b'), ('b', 'i'), ('c', 'c'))
    for s1 in shapes:
        for s2 in shapes:
            j = n()
            for d1, d2 in dps if tier != 'quick' else [dps[(j + 3 * q) % 8] for q in range(3)]:
                pairs = kindpairs(d1, d2)
                k1, k2 = R.pick(pairs)
                tag = contraction_tag(_contraction_class(s1, s2), d1 + d2)
                yield case(fname, tag, OP(fname, A(k1, s1, d1, 'any', 0), A(k2, s2, d2, 'any', 1)))


def gen_vdot(fname, tier):
    n = Counter()
    R = Rot()
    shapes = [(), (1,), (3,), (2, 3), (3, 2), (1, 3), (6,), (2, 2)]
    for s1 in shapes:
        for s2 in shapes:
            for d1, d2 in (('f', 'f'), ('i', 'f'), ('c', 'f'), ('f', 'c'), ('c', 'c'), ('b', 'b'), ('i', 'i')):
                pairs = kindpairs(d1, d2)
                k1, k2 = R.pick(pairs)
                size = lambda s: int(numpy.prod(s, dtype=int))
                try:
                    numpy.broadcast_shapes(s1, s2)
                    bc = True
                except ValueError:
                    bc = False
                tag = contraction_tag('same-shape' if s1 == s2 else ('same-size-bc' if bc else 'same-size') if size(s1) == size(s2) else 'diff-size', d1 + d2)
                yield case(fname, tag, OP(fname, A(k1, s1, d1, 'any', 0), A(k2, s2, d2, 'any', 1)))


def gen_cross(fname, tier):
    # numpy >= 2.5 rejects 2-vectors (older releases accepted them with a deprecation warning): only 3-vectors are unambiguous
    n = Counter()
    R = Rot()
    for s1, s2 in [((3,), (3,)), ((2, 3), (2, 3)), ((2, 3), (3,)), ((3,), (2, 3)), ((2, 1, 3), (1, 2, 3)), ((1, 3), (2, 3)), ((4,), (4,)), ((3,), ()), ((2, 3), (3, 3)), ((3,), (4,))]:
        dim = (s1[-1] if s1 else 0, s2[-1] if s2 else 0)
        cls = 'dim3' if dim == (3, 3) else 'dim-bad'
        for d1, d2 in (('f', 'f'), ('i', 'i'), ('i', 'f'), ('c', 'f'), ('c', 'c')):
            pairs = kindpairs(d1, d2)
            k1, k2 = R.pick(pairs)
            yield case(fname, cls + ':' + ('int' if d1 + d2 == 'ii' else 'num'), OP(fname, A(k1, s1, d1, 'any', 0), A(k2, s2, d2, 'any', 1)))
    for sa, sb, kw in [((3, 2), (2, 3), dict(axisa=0, axisb=1)), ((3, 2), (2, 3), dict(axisa=0, axisb=1, axisc=0)), ((3, 2), (3, 2), dict(axis=0)), ((2, 3), (2, 3), dict(axisc=0)),
                       ((2, 3), (3, 2), dict(axisb=-2, axisc=-2)), ((2, 1, 3), (3, 1, 4), dict(axisa=2, axisb=0, axisc=1)), ((2, 3), (2, 3), dict(axis=2)), ((3, 3), (3, 3), dict(axis=0))]:
        for k1, k2 in (('const', 'geom'), ('basis', 'arg'), ('geom', 'raw'), ('raw', 'ielem')):
            d1 = 'f' if k1 != 'ielem' else 'i'
            d2 = 'f' if k2 != 'ielem' else 'i'
            tag = 'axes' + (':raw' if 'raw' in (k1, k2) else '')
            yield case(fname, tag, OP(fname, A(k1, sa, d1, 'any', 0), A(k2, sb, d2, 'any', 1), **{k: L(v) for k, v in kw.items()}))


EINSUM = [
    # traces, diagonals, transposes of one operand
    ('ii', [(2, 2)]), ('ii->', [(2, 2)]), ('ii->i', [(2, 2)]), ('ij->ji', [(2, 3)]), ('ij->', [(2, 3)]), ('ij->j', [(2, 3)]), ('ij->i', [(2, 3)]),
    ('ij', [(2, 3)]), ('ji', [(2, 3)]), ('iij->j', [(2, 2, 3)]), ('iij->ij', [(2, 2, 3)]), ('iji->j', [(2, 3, 2)]), ('ijj->ij', [(3, 2, 2)]), ('iii->i', [(2, 2, 2)]), ('iii', [(2, 2, 2)]),
    ('i->', [(3,)]), ('i', [(3,)]), ('', [()]), ('->', [()]),
    # ellipsis
    ('...', [(2, 3)]), ('...->...', [(2, 3)]), ('...i->...', [(2, 3)]), ('i...->...', [(2, 3)]), ('i...->...i', [(2, 3)]), ('...ii->...i', [(3, 2, 2)]), ('i...i', [(2, 3, 2)]), ('...ij->...ji', [(2, 2, 3)]),
    # two operands: outer, inner, matrix products, broadcasting
    ('i,i', [(3,), (3,)]), ('i,i->i', [(3,), (3,)]), ('i,j->ij', [(2,), (3,)]), ('i,j', [(2,), (3,)]), ('ij,jk', [(2, 3), (3, 2)]), ('ij,jk->ik', [(2, 3), (3, 2)]), ('ij,kj->ik', [(2, 3), (2, 3)]),
    ('ij,ij->', [(2, 3), (2, 3)]), ('ij,j->i', [(2, 3), (3,)]), ('ij,j', [(2, 3), (3,)]), (',ij->ij', [(), (2, 3)]), ('ij,ji->', [(2, 3), (3, 2)]), ('ij,ij->ij', [(2, 1), (1, 3)]), ('ij,ij->ij', [(2, 3), (1, 3)]),
    ('...i,...i->...', [(2, 3), (3,)]), ('...i,i...->...', [(2, 3), (3, 2)]), ('...ij,...jk->...ik', [(2, 2, 3), (3, 2)]), ('ii,ij->j', [(2, 2), (2, 3)]), ('ijk,kj->i', [(2, 2, 3), (3, 2)]),
    ('ij,jk,kl->il', [(2, 3), (3, 2), (2, 2)]), ('i,i,i->', [(3,), (3,), (3,)]), ('i,ij,j->', [(2,), (2, 3), (3,)]),
    # rejected by numpy for shape reasons
    ('ij,jk', [(2, 3), (2, 2)]), ('ii', [(2, 3)]), ('ij', [(3,)]), ('i,i', [(3,), (2,)]), ('ijk', [(2, 3)]), ('ij->k', [(2, 3)]), ('ij,ij->ij', [(2, 3), (2, 2)]),
]


NREJECTED = 7  # trailing entries of EINSUM


def gen_einsum(fname, tier):
    n = Counter()
    R = Rot()
    for isig, (sig, shapes) in enumerate(EINSUM):
        for dts in ('f' * 3, 'i' * 3, 'c' * 3, 'ifc', 'bbb', 'fib'):
            ks = [R.pick(kinds_for(d, True)) for j, d in enumerate(dts[:len(shapes)])]
            if all(k == 'raw' for k in ks):
                ks[0] = 'const'
            ops = [A(k, s, d, 'any', j) for j, (k, s, d) in enumerate(zip(ks, shapes, dts))]
            cls = 'ellipsis' if '...' in sig else 'explicit' if '->' in sig else 'implicit'
            rep = any(part.replace('.', '').count(c) > 1 for part in sig.split('->')[0].split(',') for c in set(part.replace('.', '')))
            valid = isig < len(EINSUM) - NREJECTED
            tag = '@bool-contraction' if valid and dcls(dts[:len(shapes)]) == 'bool' else '{}op:{}{}'.format(len(shapes), cls, '+repeated' if rep else '') if valid else 'rejected'
            yield case(fname, tag, OP(fname, L(sig), *ops))


def gen_dot(fname, tier):
    yield from gen_matmul(fname, tier)


# ------------------------------------------------------------------ linalg

def gen_linalg(fname, tier):
    n = Counter()
    R = Rot()
    variant = 'sym' if fname == 'numpy.linalg.eigh' else 'mat'
    for s in [(2, 2), (3, 3), (1, 1), (2, 2, 2), (3, 2, 2), (2, 3), (3, 2), (3,), (), (2, 2, 3)]:
        sq = len(s) >= 2 and s[-1] == s[-2]
        for d in DT:
            for k in kinds_for(d):
                if k == 'ielem' and fname in ('numpy.linalg.eig', 'numpy.linalg.eigh') and len(s) > 2:
                    continue
                tag = ('@linalg-int' if d in 'bi' and fname in ('numpy.linalg.det', 'numpy.linalg.inv') else 'square') if sq else ('@eig-nonsquare' if fname in ('numpy.linalg.eig', 'numpy.linalg.eigh') else 'nonsquare')
                yield case(fname, tag, OP(fname, A(k, s, d, variant if sq else 'any', R.slot())))


# ------------------------------------------------------------------ choose / interp / searchsorted

def gen_choose(fname, tier):
    n = Counter()
    R = Rot()
    for sa in [(), (3,), (2, 3), (2, 1), (1, 3)]:
        for nch, shapes in [(2, [(), ()]), (2, [(3,), (3,)]), (2, [(2, 3), (2, 3)]), (2, [(2, 1), (1, 3)]), (2, [(2, 3), ()]), (3, [(3,), (1,), ()]), (2, [(2, 2), (2, 2)]), (2, [(2, 3), (3,)])]:
            for dts in ('ff', 'ii', 'fi', 'cf', 'bb', 'ib'):
                for ka in (('ielem', 'const', 'arg') if tier != 'quick' else (('ielem', 'const', 'arg')[R.slot()],)):
                    a = A(ka, sa, 'i', 'idx', R.flag())
                    chs = [A(R.pick(kinds_for(dts[j % 2], True)), s, dts[j % 2], 'any', j) for j, s in enumerate(shapes)]
                    tag = 'choices{}:{}'.format(nch, 'same' if dts[0] == dts[1] else 'mixed')
                    yield case(fname, tag, OP(fname, a, LST(*chs)))
    # boolean selector and method form
    for ka in ('geom', 'ielem', 'const'):
        a = A(ka, (3,), 'b', 'any', 0)
        yield case(fname, 'bool-selector', OP(fname, a, LST(A('const', (3,), 'f'), A('geom', (3,), 'f', 'any', 1))))
    yield case(fname, 'raw-selector', OP(fname, ['np', 'i', [0, 1, 0]], LST(A('geom', (3,), 'f'), A('basis', (3,), 'f', 'any', 1))))
    yield case(fname, 'raw-selector', OP(fname, L([1, 0]), LST(A('const', (2, 1), 'i'), A('arg', (1, 2), 'i', 'any', 1))))


XP = [[-.5, 0., .5], [0., 1., 2.5], [-2., -1.25, 0.5, 2., 3.], [1.], [0., 1.]]
FP = [[0., 1., 0.], [2., -1., .5], [1., 3., 2., 2., -1.], [4.], [1., 3.]]


def gen_interp(fname, tier):
    n = Counter()
    R = Rot()
    for s in SH:
        for xp, fp in zip(XP, FP):
            for kw in ({}, {'left': -10.}, {'right': 10.}, {'left': -10., 'right': 10.}):
                for d in 'fi':
                    for k in (kinds_for(d) if tier != 'quick' else [R.kind(d)]):
                        x = A(k, s, d, 'any', R.slot())
                        tag = 'lr' if kw else 'plain' 
                        yield case(fname, tag, OP(fname, x, L(xp), L(fp), **{a: L(b) for a, b in kw.items()}))
    x = A('geom', (3,), 'f')
    yield case(fname, 'array-knots', OP(fname, x, ['np', 'f', XP[0]], ['np', 'f', FP[0]]))
    yield case(fname, 'complex-fp', OP(fname, x, L(XP[1]), ['np', 'c', [1., 2., 3.]]))
    yield case(fname, 'length-mismatch', OP(fname, x, L(XP[1]), L([1., 2.])))
    yield case(fname, 'fn-knots', OP(fname, x, A('const', (3,), 'f', 'pos', 0), A('const', (3,), 'f', 'any', 1)))


SORTED = [[0., .25, .5, 1.5, 2.], [-1.25, -.75, .5, .5, 2., 3.], [1.], [], [-3, -1, 0, 2, 2, 4]]


def gen_searchsorted(fname, tier):
    n = Counter()
    R = Rot()
    for s in SH:
        for a in SORTED:
            for side in (None, 'left', 'right'):
                for d in 'fib':
                    for k in (kinds_for(d) if tier != 'quick' else [R.kind(d)]):
                        v = A(k, s, d, 'any', R.slot())
                        kw = {} if side is None else {'side': L(side)}
                        yield case(fname, ('haystack-empty' if not a else 'side-' + str(side)), OP(fname, L(a) if R.flag() else ['np', 'f', a], v, **kw))
    v = A('geom', (2, 3), 'f')
    unsorted = [.2, .8, .4, 0., .6, 1.]
    order = [3, 0, 2, 4, 1, 5]
    for side in ('left', 'right'):
        yield case(fname, 'sorter', OP(fname, L(unsorted), v, side=L(side), sorter=L(order)))
        yield case(fname, 'sorter', OP(fname, L(unsorted), A('const', (3,), 'f', 'unit'), L(side), ['np', 'i', order]))
    yield case(fname, 'bad-side', OP(fname, L(SORTED[0]), v, side=L('middle')))
    yield case(fname, 'fn-haystack', OP(fname, A('const', (3,), 'f', 'pos'), v))
    yield case(fname, '2d-haystack', OP(fname, L([[0., 1.], [2., 3.]]), v))


# ------------------------------------------------------------------ python operators and Array methods

def gen_operators(fname, tier):
    binops = {'op.add': ('any', 'any'), 'op.sub': ('any', 'any'), 'op.mul': ('any', 'any'), 'op.truediv': ('any', 'nz'), 'op.floordiv': ('any', 'nz'), 'op.mod': ('any', 'nz'),
              'op.pow': ('pos', 'exp'), 'divmod': ('any', 'nz'), 'op.and_': ('any', 'any'), 'op.or_': ('any', 'any'), 'op.lt': ('any', 'any'), 'op.gt': ('any', 'any'), 'op.eq': ('any', 'any')}
    n = Counter()
    R = Rot()
    shapes = [(), (3,), (2, 3)] if tier == 'quick' else [(), (3,), (2, 1), (2, 3)]
    dpairs = [(d1, d2) for d1 in DT for d2 in DT]
    for name, (v1, v2) in binops.items():
        for s1 in shapes:
            for s2 in shapes:
                j = n()
                for d1, d2 in dpairs if tier != 'quick' or (s1, s2) == ((2, 3), (3,)) else [dpairs[(5 * j + 4 * q + q // 4) % 16] for q in range(6)]:
                    pairs = kindpairs(d1, d2)
                    if name == 'op.pow' and d1 in 'bi' and d2 in 'bi':
                        pairs = [(k1, k2) for k1, k2 in pairs if k2 != 'arg']
                    k1, k2 = R.pick(pairs)
                    yield case(name, pair_tag(name, d1, d2), OP(name, A(k1, s1, d1, v1, 0), A(k2, s2, d2, v2, 1)))
        for d in DT:  # reflected with python scalars
            k = R.kind(d)
            if not (name == 'op.pow' and d in 'bi' and k == 'arg'):
                yield case(name, 'i' + d, OP(name, L(2), A(k, (2, 3), d, v2, 0)))
            yield case(name, d + 'f', OP(name, A(k, (2, 3), d, v1, 0), L(.5)))
    for name in ('op.neg', 'op.pos', 'op.abs', 'op.invert'):
        for s in SH:
            for d in DT:
                yield case(name, unary_tag(name, d), OP(name, A(R.kind(d), s, d, 'any', R.slot())))
    for s1, s2 in [((3,), (3,)), ((2, 3), (3,)), ((3,), (3, 2)), ((2, 3), (3, 2)), ((2, 2, 3), (3, 2)), ((2, 3), (2, 3)), ((), (3,))]:
        for d1 in DT:
            for d2 in DT:
                pairs = kindpairs(d1, d2)
                k1, k2 = R.pick(pairs)
                yield case('op.matmul', contraction_tag(_contraction_class(s1, s2), d1 + d2), OP('op.matmul', A(k1, s1, d1, 'any', 0), A(k2, s2, d2, 'any', 1)))


def gen_methods(fname, tier):
    n = Counter()
    R = Rot()
    for s in SH + [(2, 2, 3)]:
        nd = len(s)
        for d in DT:
            x = lambda: A(R.kind(d), s, d, 'any', R.slot())
            for name in ('attr.T', 'attr.real', 'attr.imag', 'attr.shape', 'attr.ndim', 'attr.size'):
                yield case(name, d, OP(name, x()))
            yield case('method.conjugate', d, OP('method.conjugate', x()))
            yield case('len', 'scalar' if not nd else 'plain', OP('len', x()))
            for a in range(-nd, nd):
                yield case('method.sum', 'axis-int:' + d, OP('method.sum', x(), L(a)))
                yield case('method.prod', 'axis-int:' + d, OP('method.prod', x(), L(a)))
                for b in range(-nd, nd):
                    yield case('method.swapaxes', 'axes', OP('method.swapaxes', x(), L(a), L(b)))
            for p in itertools.permutations(range(nd)):
                yield case('method.transpose', 'perm', OP('method.transpose', x(), TUP(*map(L, p))))
            for t in 'bifc'['bifc'.index(d):]:
                yield case('method.astype', d + '>' + t, OP('method.astype', x(), ['pytype', t]))


# ------------------------------------------------------------------ depth-2 compositions

def _core(d):
    c2 = A('const', (), 'i', 'pos', 3)
    half = A('arg', (), 'f', 'pos', 2)
    return [
        ('neg', lambda x: OP('numpy.negative', x)),
        ('abs', lambda x: OP('numpy.absolute', x)),
        ('square', lambda x: OP('numpy.square', x)),
        ('mulc', lambda x: OP('numpy.multiply', x, c2)),
        ('adda', lambda x: OP('numpy.add', half, x)),
        ('gt', lambda x: OP('numpy.greater', x, half)),
        ('sum0', lambda x: OP('numpy.sum', x, L(0))),
        ('sum-1', lambda x: OP('numpy.sum', x, L(-1))),
        ('T', lambda x: OP('numpy.transpose', x)),
        ('swap', lambda x: OP('numpy.swapaxes', x, L(0), L(-1))),
        ('i0', lambda x: OP('getitem', x, L(0))),
        ('rev', lambda x: OP('getitem', x, TUP(['ell'], ['sl', None, None, -1]))),
        ('new1', lambda x: OP('getitem', x, TUP(['sl', None, None, None], ['new']))),
        ('tail', lambda x: OP('getitem', x, ['sl', 1, None, None])),
        ('perm', lambda x: OP('getitem', x, ['np', 'i', [1, 0]])),
        ('fnidx', lambda x: OP('getitem', x, A('ielem', (), 'i', 'idx', 0))),
        ('ravel', lambda x: OP('numpy.ravel', x)),
        ('reshape32', lambda x: OP('numpy.reshape', x, TUP(L(3), L(2)))),
        ('stack0', lambda x: OP('numpy.stack', LST(x, x), L(0))),
        ('cat-1', lambda x: OP('numpy.concatenate', LST(x, x), L(-1))),
        ('take0', lambda x: OP('numpy.take', x, L([1, 0]), L(0))),
        ('einsum-last', lambda x: OP('numpy.einsum', L('...i->...'), x)),
        ('conj', lambda x: OP('numpy.conjugate', x)),
        ('matT', lambda x: OP('numpy.matmul', x, OP('numpy.transpose', x))),
    ] + ([('sin', lambda x: OP('numpy.sin', x)), ('div', lambda x: OP('numpy.true_divide', x, half))] if d in 'fc' else
         [('mod', lambda x: OP('numpy.mod', x, c2)), ('fdiv', lambda x: OP('numpy.floor_divide', x, c2))])


def gen_compose(fname, tier):
    n = Counter()
    R = Rot()
    for s in ((2, 3), (2, 2)):
        for d in 'if' if tier == 'quick' else 'ifc':
            core = _core(d)
            for gname, g in core:
                if gname == 'gt':
                    continue  # boolean intermediates: bool arithmetic is covered (and reported) per function
                for hname, h in core:
                    if (hname, gname) in (('matT', 'new1'), ('tail', 'tail')):
                        continue  # matmul of a length-1 core dimension / zero-length results are classes of their own
                    for k in (kinds_for(d) if tier != 'quick' else [R.kind(d)]):
                        x = A(k, s, d, 'any', R.slot())
                        yield case('compose', hname + '.' + gname, h(g(x)))


# ------------------------------------------------------------------ the table

GENERATORS = {}
for _f in ('numpy.shape', 'numpy.ndim', 'numpy.size'):
    GENERATORS[_f] = gen_shapefn
for _f in UNARY:
    GENERATORS[_f] = gen_unary
for _f in BINARY:
    GENERATORS[_f] = gen_binary
GENERATORS.update({
    'numpy.power': gen_power, 'numpy.matmul': gen_matmul, 'numpy.dot': gen_dot, 'numpy.vdot': gen_vdot, 'numpy.cross': gen_cross, 'numpy.einsum': gen_einsum,
    'numpy.all': gen_reduce, 'numpy.any': gen_reduce, 'numpy.sum': gen_reduce, 'numpy.prod': gen_reduce, 'numpy.linalg.norm': gen_norm,
    'numpy.reshape': gen_reshape, 'numpy.ravel': gen_ravel, 'numpy.transpose': gen_transpose, 'numpy.swapaxes': gen_swapaxes,
    'numpy.stack': gen_join, 'numpy.concatenate': gen_join,
    'numpy.take': gen_take, 'numpy.compress': gen_compress, 'numpy.repeat': gen_repeat, 'numpy.broadcast_to': gen_broadcast_to,
    'numpy.diagonal': gen_diagonal, 'numpy.trace': gen_diagonal,
    'numpy.linalg.det': gen_linalg, 'numpy.linalg.inv': gen_linalg, 'numpy.linalg.eig': gen_linalg, 'numpy.linalg.eigh': gen_linalg,
    'numpy.choose': gen_choose, 'numpy.interp': gen_interp, 'numpy.searchsorted': gen_searchsorted,
})
# numpy renamed a few ufuncs; both spellings resolve to the same object
ALIASES = {'numpy.divide': 'numpy.true_divide', 'numpy.remainder': 'numpy.mod', 'numpy.abs': 'numpy.absolute', 'numpy.conj': 'numpy.conjugate'}

EXTRA = {'getitem': gen_getitem, 'operators': gen_operators, 'methods': gen_methods, 'compose': gen_compose}


def cases_for(name, tier):
    gen = EXTRA.get(name) or GENERATORS[name]
    return list(gen(name, tier))
