'''C10 observation layer: what a live nutils topology denotes geometrically.

For every element the transform chain is resolved to an element of the initial mesh (index_with_tail), the
tail is applied to the vertices of the reference (and of the simplices that partition a trimmed reference)
and the affine geometry of that initial element (measured ONCE per mesh by a native nutils evaluation of
the geometry at the element vertices) gives physical coordinates.  Normals follow nutils' own convention:
evaluable.TransformBasis._transform_basis yields tangent + exterior vectors of the chain.

`native_*` functions perform the observation named in the property (topo.integrate(J), boundary.integrate
([n J, x.n J])) through the complete nutils function/sample machinery; they cost ~60 ms per call and are
used on a deterministic subset of the states and to confirm every candidate violation.
'''

import math
import numpy
from . import core
from . import c10_geom as G


class Unsupported(Exception):
    'the observation layer cannot interpret this object (not a verdict about nutils)'


_kind_cache = {}
_simp_cache = {}


def ref_base(ref):
    from nutils import element
    while isinstance(ref, (element.WithChildrenReference, element.MosaicReference, element.OwnChildReference, element.EmptyLike)):
        ref = ref.baseref
    return ref


def ref_kind(ref):
    'tuple of simplex dimensions of the untrimmed reference'
    from nutils import element
    try:
        return _kind_cache[ref]
    except KeyError:
        pass
    base = ref_base(ref)
    if isinstance(base, element.TensorReference):
        kind = ref_kind(base.ref1) + ref_kind(base.ref2)
    elif isinstance(base, element.SimplexReference):
        kind = (base.ndims,) if base.ndims else ()
    else:
        raise Unsupported('reference {!r}'.format(base))
    _kind_cache[ref] = kind
    return kind


def ref_is_trimmed(ref):
    from nutils import element
    return isinstance(ref, (element.WithChildrenReference, element.MosaicReference))


def ref_simplices(ref):
    'float array (nsimplices, k+1, k): a partition of the (possibly trimmed) reference into simplices, local coordinates'
    from nutils import element
    try:
        return _simp_cache[ref]
    except KeyError:
        pass
    k = ref.ndims
    if isinstance(ref, element.EmptyLike):
        out = numpy.zeros((0, k + 1, k))
    elif isinstance(ref, element.OwnChildReference):
        out = ref_simplices(ref.baseref)
    elif isinstance(ref, element.WithChildrenReference):
        parts = []
        for ctrans, cref in ref.children:
            if cref:
                s = ref_simplices(cref)
                if len(s):
                    parts.append(numpy.asarray(ctrans.apply(s.reshape(len(s) * (k + 1), k))).reshape(s.shape))
        out = numpy.concatenate(parts) if parts else numpy.zeros((0, k + 1, k))
    else:
        verts = numpy.asarray(ref.vertices, dtype=float)
        simplices = numpy.asarray(ref.simplices, dtype=int)
        out = verts[simplices] if len(simplices) else numpy.zeros((0, k + 1, k))
    _simp_cache[ref] = out
    return out


def local_simplex_volume(s):
    'volume of simplices given as (n, k+1, k) array of local coordinates'
    k = s.shape[2]
    if k == 0:
        return numpy.ones(len(s))
    e = s[:, 1:, :] - s[:, :1, :]
    return abs(numpy.linalg.det(e)) / math.factorial(k)


class GeoMap:
    'the geometry of an initial mesh as one affine map per element'

    def __init__(self, topo0, geom0):
        from nutils import points, types
        self.topo0 = topo0
        self.transforms = topo0.transforms
        self.d = int(geom0.shape[0])
        smp = topo0.sample(lambda ref, degree: points.CoordsPoints(types.arraydata(numpy.asarray(ref.vertices, dtype=float))), 0)
        X = smp.eval(geom0)
        self.A = []
        self.a = []
        for i, ref in enumerate(topo0.references):
            xi = numpy.asarray(ref.vertices, dtype=float)
            x = X[smp.getindex(i)]
            M = numpy.concatenate([xi, numpy.ones((len(xi), 1))], axis=1)
            sol, res, rank, sv = numpy.linalg.lstsq(M, x, rcond=None)
            if abs(M @ sol - x).max() > 1e-12:
                raise core.HarnessError('initial mesh element {} is not affine'.format(i))
            self.A.append(sol[:-1].T)
            self.a.append(sol[-1])

    def resolve(self, chain):
        try:
            return self.transforms.index_with_tail(chain)
        except ValueError:
            raise Unsupported('chain does not resolve to an element of the initial mesh')


class Elem:
    __slots__ = ('k', 'kind', 'trimmed', 'v0', 'E', 'simplices', 'opp_simplices', 'vol_simplices', 'vol_ref', 'moment', 'nvec',
                 'flux', 'chain', 'opp', 'refname')


def _basis(tail, k, d):
    from nutils import evaluable
    return numpy.asarray(evaluable.TransformBasis._transform_basis(tail, k, d))


def _normal_from(T, ext, d):
    'n*J (per unit local measure) of a codimension-1 piece with tangent columns T and exterior direction ext'
    if d == 1:
        n = numpy.array([1.])
    elif d == 2:
        n = numpy.array([T[1, 0], -T[0, 0]])
    elif d == 3:
        n = numpy.cross(T[:, 0], T[:, 1])
    else:
        raise Unsupported('dimension {}'.format(d))
    s = float(n @ ext)
    if abs(s) <= 1e-12 * float(numpy.linalg.norm(n)) * float(numpy.linalg.norm(ext)):
        raise Unsupported('exterior vector is tangent')
    return n if s > 0 else -n


def observe(references, transforms, gmap, opposites=None):
    '''list of Elem for a sequence of (reference, chain) pairs; the chart (kind, v0, E) describes the UNTRIMMED
    reference exactly, `simplices` the actual (possibly trimmed) element in physical float coordinates'''
    from nutils import transform
    out = []
    d = gmap.d
    opps = iter(opposites) if opposites is not None else None
    for ref, chain in zip(references, transforms):
        el = Elem()
        k = ref.ndims
        el.k = k
        el.kind = ref_kind(ref)
        el.trimmed = ref_is_trimmed(ref)
        el.chain = chain
        el.refname = type(ref).__name__
        i0, tail = gmap.resolve(chain)
        A, a = gmap.A[i0], gmap.a[i0]
        refpoly = G.Poly.reference(el.kind)
        loc = numpy.array([[float(c) for c in v] for v in refpoly.V], dtype=float).reshape(len(refpoly.V), k)
        phys = numpy.asarray(transform.apply(tail, loc)) @ A.T + a
        # local points: first the origin, then the unit vectors (they are vertices of the reference product)
        idx0 = next(i for i, v in enumerate(refpoly.V) if all(c == 0 for c in v))
        v0 = phys[idx0]
        E = []
        for j in range(k):
            ij = next(i for i, v in enumerate(refpoly.V) if all((c == 1) == (l == j) and c in (0, 1) for l, c in enumerate(v)))
            E.append(phys[ij] - v0)
        el.v0 = tuple(G.exact(c) for c in v0)
        el.E = [tuple(G.exact(c) for c in e) for e in E]
        s = ref_simplices(ref)
        el.vol_ref = float(ref.volume)
        lv = local_simplex_volume(s) if len(s) else numpy.zeros(0)
        if k:
            Emat = numpy.array(E).T          # d x k
            scale = math.sqrt(max(numpy.linalg.det(Emat.T @ Emat), 0.))
        else:
            scale = 1.
        el.vol_simplices = float(lv.sum()) * scale
        el.vol_ref *= scale
        sp = (numpy.asarray(transform.apply(tail, s.reshape(len(s) * (k + 1), k))) @ A.T + a).reshape(len(s), k + 1, d) if len(s) else numpy.zeros((0, k + 1, d))
        el.simplices = sp
        el.moment = (sp.mean(axis=1) * (lv * scale)[:, None]).sum(axis=0) if len(s) else numpy.zeros(d)
        el.nvec = None
        el.flux = None
        if k == d - 1:
            B = _basis(tail, k, d)
            T = A @ B[:, :k]
            ext = A @ B[:, k]
            el.nvec = _normal_from(T, ext, d)          # = n * J with J the measure scale of the chart of the CHAIN
            # B's tangent columns are the chain's linear part, i.e. the same chart as E: |nvec| == scale
            if abs(numpy.linalg.norm(el.nvec) - scale) > 1e-9 * max(1., scale):
                raise Unsupported('normal scale mismatch')
            el.flux = el.nvec * float(lv.sum())
        el.opp = None
        el.opp_simplices = None
        if opps is not None:
            ochain = next(opps)
            el.opp = ochain
            j0, otail = gmap.resolve(ochain)
            Ao, ao = gmap.A[j0], gmap.a[j0]
            el.opp_simplices = (numpy.asarray(transform.apply(otail, s.reshape(len(s) * (k + 1), k))) @ Ao.T + ao).reshape(len(s), k + 1, d) if len(s) else numpy.zeros((0, k + 1, d))
        out.append(el)
    return out


def observe_topology(topo, gmap, with_opposites=False):
    return observe(topo.references, topo.transforms, gmap, topo.opposites if with_opposites else None)


# ------------------------------------------------------------------------------------------ native nutils

def native_measures(topo, geom, degree=2):
    from nutils import function
    return numpy.asarray(topo.integrate_elementwise(function.J(geom), degree=degree), dtype=float)


def native_boundary(btopo, geom, degree=2):
    'returns (oint n J, oint x.n J, oint J) through nutils integrate'
    from nutils import function
    J = function.J(geom)
    n = function.normal(geom)
    a, b, c = btopo.integrate([n * J, (geom @ n) * J, J], degree=degree)
    return numpy.asarray(a, dtype=float), float(b), float(c)


# ------------------------------------------------------------------------------------------ product structure

class PE:
    '''one element of an arbitrary (possibly multi-space) topology = a tuple of per-space Elem factors.
    Derived quantities are in the concatenated coordinates of all spaces.'''

    __slots__ = ('factors', 'k', 'd', 'kind', 'trimmed', 'v0', 'E', 'vol', 'vol_ref', '_points', '_opp_points', 'flux', 'M', 'codim')

    def __init__(self, factors):
        self.factors = factors
        self.k = sum(f.k for f in factors)
        dims = [len(f.v0) for f in factors]
        self.d = sum(dims)
        self.kind = tuple(x for f in factors for x in f.kind)
        self.trimmed = any(f.trimmed for f in factors)
        self.v0 = tuple(x for f in factors for x in f.v0)
        E = []
        off = 0
        for f, df in zip(factors, dims):
            for e in f.E:
                E.append(tuple(G.ZERO for _ in range(off)) + tuple(e) + tuple(G.ZERO for _ in range(self.d - off - df)))
            off += df
        self.E = E
        self.vol = 1.
        self.vol_ref = 1.
        for f in factors:
            self.vol *= f.vol_simplices
            self.vol_ref *= f.vol_ref
        self._points = None
        self._opp_points = None
        self.codim = self.d - self.k
        self.flux = None
        self.M = None
        if self.codim == 1:
            # exactly one factor is a codimension-1 piece of its space
            flux = numpy.zeros(self.d)
            M = numpy.zeros((self.d, self.d))
            off = 0
            offs = []
            for f, df in zip(factors, dims):
                offs.append(off)
                off += df
            for s, (f, df) in enumerate(zip(factors, dims)):
                if f.k == df - 1:
                    others = 1.
                    for t, g in enumerate(factors):
                        if t != s:
                            others *= g.vol_simplices
                    flux[offs[s]:offs[s] + df] = f.flux * others
                    # int n_i x_j : x_j in the same space -> n_i * moment_j / |nvec| ... moment is int x over the piece
                    lv = numpy.linalg.norm(f.nvec)
                    unit = f.nvec / lv if lv else f.nvec
                    M[offs[s]:offs[s] + df, offs[s]:offs[s] + df] = numpy.outer(unit, f.moment) * others
                    for t, g in enumerate(factors):
                        if t != s:
                            rest = 1.
                            for u, h in enumerate(factors):
                                if u != s and u != t:
                                    rest *= h.vol_simplices
                            M[offs[s]:offs[s] + df, offs[t]:offs[t] + len(g.v0)] = numpy.outer(f.flux, g.moment) * rest
            self.flux = flux
            self.M = M

    @staticmethod
    def _prod_points(arrays):
        pts = arrays[0]
        for a in arrays[1:]:
            pts = numpy.concatenate([numpy.repeat(pts, len(a), axis=0), numpy.tile(a, (len(pts), 1))], axis=1)
        return pts

    @property
    def points(self):
        'float (n, d) array: all corner points of the pieces that make up the element'
        if self._points is None:
            arrs = []
            for f in self.factors:
                p = f.simplices.reshape(-1, len(f.v0))
                arrs.append(numpy.unique(numpy.round(p, 12), axis=0) if len(p) else p)
            self._points = self._prod_points(arrs)
        return self._points

    @property
    def opp_points(self):
        if self._opp_points is None:
            arrs = []
            for f in self.factors:
                src = f.opp_simplices if f.opp_simplices is not None else f.simplices
                p = src.reshape(-1, len(f.v0))
                arrs.append(numpy.unique(numpy.round(p, 12), axis=0) if len(p) else p)
            self._opp_points = self._prod_points(arrs)
        return self._opp_points


def factor_topologies(topo):
    'the per-space TransformChains topologies of a (product) topology, or None if it is not a plain product'
    name = type(topo).__name__
    if hasattr(topo, 'transforms'):
        return [topo]
    if name == '_Mul':
        a, b = factor_topologies(topo.topo1), factor_topologies(topo.topo2)
        if a is None or b is None:
            return None
        return a + b
    return None


def observe_any(topo, gmaps, with_opposites=False):
    'list of PE in element order for transform-chain topologies, products and disjoint unions of those'
    name = type(topo).__name__
    if hasattr(topo, 'transforms') and hasattr(topo, 'space'):
        if topo.space not in gmaps:
            raise Unsupported('space {}'.format(topo.space))
        return [PE([el]) for el in observe_topology(topo, gmaps[topo.space], with_opposites)]
    if name == '_Mul':
        e1 = observe_any(topo.topo1, gmaps, with_opposites)
        e2 = observe_any(topo.topo2, gmaps, with_opposites)
        return [PE(a.factors + b.factors) for a in e1 for b in e2]
    if name == '_DisjointUnion':
        return observe_any(topo.topo1, gmaps, with_opposites) + observe_any(topo.topo2, gmaps, with_opposites)
    if name in ('_Empty',):
        return []
    if name == '_Take':
        raise Unsupported('_Take')
    raise Unsupported('topology class {}'.format(name))


def resolve_pair(pe, parents):
    '''the indices (i, j) of the two elements of the parent topology (given by its per-space factor topologies) that
    an interface element connects; ValueError if a chain does not resolve'''
    lens = [len(p) for p in parents]
    i = j = 0
    for f, p, n in zip(pe.factors, parents, lens):
        a, tail = p.transforms.index_with_tail(f.chain)
        if f.opp is not None and f.k == len(f.v0) - 1:
            b, tail = p.transforms.index_with_tail(f.opp)
        else:
            b = a
        i = i * n + a
        j = j * n + b
    return i, j
