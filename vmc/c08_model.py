'''C08 reference model: plain numpy, no nutils.

* Poly: multivariate polynomials with explicit coefficient dictionaries; the
  geometry maps of the check are tuples of Poly objects, so G(x0) and the
  Jacobian matrix dG/dx0 are evaluated by hand.
* monomial fields of total degree <= 2 in the PHYSICAL coordinates together
  with their hand-written first and second derivatives.
* element frames (vertex -> affine frame of boxes and simplices), outward
  normals, measures and exact quadrature (Gauss-Legendre, Duffy for
  simplices) written independently of nutils.
'''

import itertools, math
import numpy


class Poly:
    'polynomial in nvars variables, {exponent tuple: coefficient}'

    def __init__(self, nvars, terms):
        self.nvars = nvars
        self.terms = {tuple(e): float(c) for e, c in terms.items() if c != 0}
        assert all(len(e) == nvars for e in self.terms)

    @classmethod
    def var(cls, nvars, k):
        return cls(nvars, {tuple(int(i == k) for i in range(nvars)): 1.})

    @classmethod
    def const(cls, nvars, c):
        return cls(nvars, {(0,) * nvars: c})

    def __add__(self, other):
        if not isinstance(other, Poly):
            other = Poly.const(self.nvars, other)
        t = dict(self.terms)
        for e, c in other.terms.items():
            t[e] = t.get(e, 0.) + c
        return Poly(self.nvars, t)

    __radd__ = __add__

    def __neg__(self):
        return Poly(self.nvars, {e: -c for e, c in self.terms.items()})

    def __sub__(self, other):
        return self + (-other if isinstance(other, Poly) else -float(other))

    def __rsub__(self, other):
        return (-self) + other

    def __mul__(self, other):
        if not isinstance(other, Poly):
            return Poly(self.nvars, {e: c * other for e, c in self.terms.items()})
        t = {}
        for e1, c1 in self.terms.items():
            for e2, c2 in other.terms.items():
                e = tuple(a + b for a, b in zip(e1, e2))
                t[e] = t.get(e, 0.) + c1 * c2
        return Poly(self.nvars, t)

    __rmul__ = __mul__

    def __pow__(self, n):
        r = Poly.const(self.nvars, 1.)
        for _ in range(n):
            r = r * self
        return r

    def diff(self, k):
        t = {}
        for e, c in self.terms.items():
            if e[k]:
                f = list(e)
                f[k] -= 1
                t[tuple(f)] = t.get(tuple(f), 0.) + c * e[k]
        return Poly(self.nvars, t)

    @property
    def degree(self):
        return max([sum(e) for e in self.terms] or [0])

    def __call__(self, pts):
        'pts (N, nvars) -> (N,)'
        pts = numpy.asarray(pts, dtype=float)
        out = numpy.zeros(pts.shape[0])
        for e, c in self.terms.items():
            term = numpy.full(pts.shape[0], c)
            for k, p in enumerate(e):
                if p:
                    term = term * pts[:, k]**p
            out += term
        return out

    def substitute_last_zero(self):
        'restrict to the hyperplane (last variable) = 0, dropping that variable'
        return Poly(self.nvars - 1, {e[:-1]: c for e, c in self.terms.items() if e[-1] == 0})


class Map:
    'polynomial map R^m -> R^n (n == m or n == m + 1)'

    def __init__(self, name, comps):
        self.name = name
        self.comps = tuple(comps)
        self.m = comps[0].nvars
        self.n = len(comps)
        self.jac = [[c.diff(k) for k in range(self.m)] for c in comps]
        self.degree = max(c.degree for c in comps)
        self.affine = self.degree <= 1

    def __call__(self, pts):
        return numpy.stack([c(pts) for c in self.comps], axis=1)

    def jacobian(self, pts):
        '(N, n, m)'
        return numpy.stack([numpy.stack([d(pts) for d in row], axis=1) for row in self.jac], axis=1)

    def embed(self, name=None):
        'restrict an (m+1)-dimensional map to the hyperplane x_last = 0: a codimension-1 embedding R^m -> R^(m+1)'
        return Map(name or self.name, [c.substitute_last_zero() for c in self.comps])


def maps(n, tier='quick'):
    '''finite family of invertible polynomial maps R^n -> R^n with small integer / dyadic coefficients.
    On the reference domains used ([0,2]^n) every determinant is bounded away from zero
    (|det| >= 0.75) and has constant sign.'''
    v = [Poly.var(n, k) for k in range(n)]
    out = []
    if n == 1:
        x, = v
        out.append(Map('id', [x]))
        out.append(Map('shear', [x * 1.5 + .5]))                      # 1D: stretch + shift
        out.append(Map('rotscale', [x * 2. - 1.]))
        out.append(Map('bend', [x + x * x * .25]))                     # x' = 1 + x/2 >= 1
        out.append(Map('mirror', [3. - x]))                            # orientation reversing
        if tier != 'quick':
            out.append(Map('bend2', [x * 2. - x * x * .25]))            # x' = 2 - x/2 >= 1
    elif n == 2:
        x, y = v
        out.append(Map('id', [x, y]))
        out.append(Map('shear', [x + y * .5, y]))
        out.append(Map('rotscale', [x - y, x + y]))                    # sqrt2 * rotation by 45 degrees
        out.append(Map('bend', [x + y * y * .125, y + x * x * .125]))  # det = 1 - xy/16 >= .75
        out.append(Map('mirror', [2. - x, y + x * .5]))               # det = -1
        if tier != 'quick':
            out.append(Map('bend2', [x + x * y * .25, y - x * .25]))    # det = 1 + y/4 + x/16 >= 1
    elif n == 3:
        x, y, z = v
        out.append(Map('id', [x, y, z]))
        out.append(Map('shear', [x + y * .5 + z * .25, y + z * .5, z]))
        out.append(Map('rotscale', [x - y * .5 + z, x + y - z * .5, -x * .5 + y + z]))   # 1.5 * rotation
        out.append(Map('bend', [x + y * y * .125, y + z * z * .125, z + x * x * .125]))  # det = 1 + xyz/64
        out.append(Map('mirror', [2. - x, y + x * .5, z + y * .25]))                     # det = -1
        if tier != 'quick':
            out.append(Map('bend2', [x + x * y * .25, y + z * .5, z + x * z * .125]))     # det = (1+y/4)(1+x/8) + xz/64 >= 1
    return out


def embeddings(m, tier='quick'):
    'codimension-1 polynomial embeddings R^m -> R^(m+1); polymeasure = the surface measure is a polynomial'
    out = []
    for M in maps(m + 1, tier):
        E = M.embed()
        E.polymeasure = E.affine
        out.append(E)
    v = [Poly.var(m, k) for k in range(m)]
    if m == 1:
        t, = v
        arc = Map('arc', [t * 3. - t**3, t * t * 3.])               # |x'| = 3 (1 + t^2)
    else:
        u, w = v
        arc = Map('arc', [u * 3. - u**3, u * u * 3., w])            # area element 3 (1 + u^2)
    arc.polymeasure = True
    out.append(arc)
    return out


# ------------------------------------------------------------------ fields

def monomials(n):
    'exponent tuples of all monomials of total degree <= 2 in n variables (constant first)'
    return [e for d in range(3) for e in itertools.product(range(d + 1), repeat=n) if sum(e) == d]


def vector_index(n):
    """index table (nV, n): vector field v has components (m_idx[v,0], ..., m_idx[v,n-1]); every monomial occurs in
    every component position, paired with two different partners"""
    nP = len(monomials(n))
    if n == 1:
        return numpy.arange(nP)[:, None]
    if n == 2:
        return numpy.array([[a, (a + s) % nP] for s in (1, 3) for a in range(nP)])
    return numpy.array([[a, (a + s) % nP, (a + 2 * s + 2) % nP] for s in (1, 3) for a in range(nP)])


def mono_eval(X, exps):
    'values (N,nP), gradient (N,nP,n), hessian (N,nP,n,n) of the monomials at physical points X (N,n): hand-written derivatives'
    N, n = X.shape
    nP = len(exps)

    def powprod(e):
        r = numpy.ones(N)
        for k, p in enumerate(e):
            if p > 0:
                r = r * X[:, k]**p
            elif p < 0:
                return numpy.zeros(N)
        return r
    val = numpy.zeros((N, nP))
    grad = numpy.zeros((N, nP, n))
    hess = numpy.zeros((N, nP, n, n))
    for ip, e in enumerate(exps):
        val[:, ip] = powprod(e)
        for j in range(n):
            if e[j] == 0:
                continue
            ej = list(e); ej[j] -= 1
            grad[:, ip, j] = e[j] * powprod(ej)
            for k in range(n):
                if ej[k] == 0:
                    continue
                ejk = list(ej); ejk[k] -= 1
                hess[:, ip, j, k] = e[j] * ej[k] * powprod(ejk)
    return val, grad, hess


def vector_ops(gradP, idx):
    'gradV (N,nV,n,n), div (N,nV), symgrad, curl (n=3) from the hand-made gradient of the monomials'
    N = gradP.shape[0]
    nV, n = idx.shape
    gradV = numpy.zeros((N, nV, n, n))
    for i in range(n):
        gradV[:, :, i, :] = gradP[:, idx[:, i], :]
    div = sum(gradV[:, :, i, i] for i in range(n))
    sym = .5 * (gradV + gradV.transpose(0, 1, 3, 2))
    curl = None
    if n == 3:
        curl = numpy.stack([gradV[:, :, 2, 1] - gradV[:, :, 1, 2],
                            gradV[:, :, 0, 2] - gradV[:, :, 2, 0],
                            gradV[:, :, 1, 0] - gradV[:, :, 0, 1]], axis=-1)
    return gradV, div, sym, curl


# ------------------------------------------------------------------ elements

class FrameError(Exception):
    pass


def frame(verts, d):
    '''affine frame of a d-dimensional reference element (box or simplex) from its
    vertex coordinates (bezier-2 order): returns v0, T (dim x d), kind'''
    verts = numpy.asarray(verts, dtype=float)
    nv = len(verts)
    v0 = verts[0]
    if d == 0:
        if nv != 1:
            raise FrameError('point with {} vertices'.format(nv))
        return v0, numpy.zeros((verts.shape[1], 0)), 'point'
    if nv == d + 1:
        T = (verts[1:] - v0).T
        kind = 'simplex' if d > 1 else 'line'
    elif nv == 2**d:
        T = numpy.stack([verts[2**(d - 1 - k)] - v0 for k in range(d)], axis=1)
        for i, bits in enumerate(itertools.product((0, 1), repeat=d)):
            if abs(v0 + T @ numpy.array(bits, dtype=float) - verts[i]).max() > 1e-12:
                raise FrameError('vertices are not a tensor-ordered parallelotope')
        kind = 'box'
    else:
        raise FrameError('cannot type element with {} vertices in dimension {}'.format(nv, d))
    return v0, T, kind


def measure(A, T):
    'sqrt(det((A T)^T (A T))) for stacks A (N,n,m) and a fixed T (m,d): d-volume scaling of reference element under x0 -> x'
    AT = A @ T
    if AT.shape[-1] == 0:
        return numpy.ones(AT.shape[0])
    G = numpy.einsum('nki,nkj->nij', AT, AT)
    return numpy.sqrt(numpy.abs(numpy.linalg.det(G)))


def outward(A, Tf, inward0):
    '''unit vector in span(A) orthogonal to the facet tangents A Tf that points out of the element;
    inward0 (N,m) is a vector (in x0 space) from the facet point to the interior of the (convex) element'''
    N = A.shape[0]
    w = numpy.einsum('nij,nj->ni', A, inward0)
    out = numpy.empty_like(w)
    for k in range(N):
        B = A[k] @ Tf
        r = w[k]
        if B.shape[1]:
            r = r - B @ numpy.linalg.lstsq(B, r, rcond=None)[0]
        nr = numpy.linalg.norm(r)
        if nr < 1e-8 * max(1., numpy.linalg.norm(w[k])):
            raise FrameError('degenerate facet frame')
        out[k] = -r / nr
    return out


def gauss01(npts):
    x, w = numpy.polynomial.legendre.leggauss(npts)
    return (x + 1) / 2, w / 2


def ref_quadrature(kind, d, npts=7):
    'points (Q,d) and weights (Q,) on the unit box / unit simplex (Duffy), exact for every polynomial degree used here'
    if d == 0:
        return numpy.zeros((1, 0)), numpy.ones(1)
    x, w = gauss01(npts)
    U = numpy.array(list(itertools.product(x, repeat=d)))
    W = numpy.prod(numpy.array(list(itertools.product(w, repeat=d))), axis=1)
    if kind in ('box', 'line'):
        return U, W
    # Duffy: collapse the cube onto the simplex
    P = numpy.empty_like(U)
    rem = numpy.ones(len(U))
    for k in range(d):
        P[:, k] = U[:, k] * rem
        rem = rem * (1 - U[:, k])
    # jacobian of (u0, u1(1-u0), u2(1-u0)(1-u1), ...) is prod_k (1-u_k)^(d-1-k)
    J = numpy.ones(len(U))
    for k in range(d):
        J = J * (1 - U[:, k])**(d - 1 - k)
    return P, W * J


def elem_integral(verts, d, h):
    'integral over the element (given by its x0 vertices) of h(x0 points (Q,m)) -> (Q, ...) times the x0 measure'
    v0, T, kind = frame(verts, d)
    U, W = ref_quadrature(kind, d)
    pts = v0 + U @ T.T
    vals = h(pts)
    if T.shape[0] == T.shape[1]:
        scale = abs(numpy.linalg.det(T)) if d else 1.
    else:
        scale = math.sqrt(abs(numpy.linalg.det(T.T @ T))) if d else 1.
    return numpy.tensordot(W, vals, axes=(0, 0)) * scale


def selfcheck():
    'sanity of the model itself (run by the check once per process)'
    for n in (1, 2, 3):
        lo, hi = numpy.zeros(n), numpy.full(n, 2.)
        g = numpy.array(list(itertools.product(numpy.linspace(0, 2, 9), repeat=n)))
        for tier in ('quick', 'thorough'):
            for M in maps(n, tier):
                det = numpy.linalg.det(M.jacobian(g))
                assert (abs(det) >= .5).all() and (numpy.sign(det) == numpy.sign(det[0])).all(), (n, M.name, det.min(), det.max())
    # quadrature: integral of x^a y^b over the unit triangle = a! b! / (a+b+2)!
    P, W = ref_quadrature('simplex', 2)
    for a in range(5):
        for b in range(5):
            assert abs((W * P[:, 0]**a * P[:, 1]**b).sum() - math.factorial(a) * math.factorial(b) / math.factorial(a + b + 2)) < 1e-14
    P, W = ref_quadrature('simplex', 3)
    for a, b, c in itertools.product(range(4), repeat=3):
        assert abs((W * P[:, 0]**a * P[:, 1]**b * P[:, 2]**c).sum() - math.factorial(a) * math.factorial(b) * math.factorial(c) / math.factorial(a + b + c + 3)) < 1e-14
    # hand derivatives of the monomials against central differences
    for n in (1, 2, 3):
        X = numpy.array([[.3, 1.1, -.7][:n], [1.5, .2, .9][:n]])
        v, g, H = mono_eval(X, monomials(n))
        for j in range(n):
            d = numpy.zeros(n); d[j] = 1e-5
            vp, gp, _ = mono_eval(X + d, monomials(n))
            vm, gm, _ = mono_eval(X - d, monomials(n))
            assert abs((vp - vm) / 2e-5 - g[:, :, j]).max() < 1e-8
            assert abs((gp - gm) / 2e-5 - H[:, :, :, j]).max() < 1e-8
