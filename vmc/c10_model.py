'''C10 reference model of a topology: a set of exact convex cells, advanced in lock step with the nutils object.

Pure Python (c10_geom); no nutils.  Elements are named by the vertex set of their untrimmed shape (Cell.key), so
the model never has to predict nutils' element ORDER: operations that take element indices are translated to cell
keys through the observation of the state they are applied to.
'''

import math
from fractions import Fraction as Fr
from . import c10_geom as G


class ModelUndefined(Exception):
    'the model does not define the result of this operation on this state (not a verdict about nutils)'


class MState:
    '''cells: dict key -> Cell.  codim 0: full dimensional typed cells.  codim 1: pieces of a validated boundary /
    interface topology (typed untrimmed cells or free polytopes).'''

    def __init__(self, d, cells, periods=(), codim=0, periodic_ok=True, factors=None):
        self.d = d
        self.cells = dict(cells)
        self.periods = [tuple(p) for p in periods]
        self.codim = codim
        self.periodic_ok = periodic_ok      # False: a periodic mesh was subsampled, neighbour relations across the seam are unspecified
        self.factors = factors              # for product states: number of simplex factors that belong to space X

    def derive(self, cells, **kw):
        args = dict(periods=self.periods, codim=self.codim, periodic_ok=self.periodic_ok, factors=self.factors)
        args.update(kw)
        return MState(self.d, cells, **args)

    def total(self):
        return sum(c.measure for c in self.cells.values())

    def canonical(self):
        'hashable canonical form of the state: sorted (dimension, kind, exact vertices of the actual cell)'
        items = []
        for c in self.cells.values():
            items.append((c.k, str(c.kind), tuple(sorted(c.pverts))))
        items.sort()
        return tuple(items)


def from_cells(d, cells, **kw):
    out = {}
    for c in cells:
        if c.kind is not None and c.poly is None:
            continue
        if c.key in out:
            raise ModelUndefined('two cells with the same untrimmed shape')
        out[c.key] = c
    return MState(d, out, **kw)


def refined(ms, keys=None, mask=None):
    'midpoint subdivision of the cells with the given keys (all if None); mask selects the simplex factors to subdivide'
    out = {}
    for key, c in ms.cells.items():
        if keys is not None and key not in keys:
            out[key] = c
            continue
        if c.kind is None:
            raise ModelUndefined('subdivision of a free polytope')
        for ch in children(c, mask):
            if ch.key in out:
                raise ModelUndefined('child coincides with an existing cell')
            out[ch.key] = ch
    return ms.derive(out)


def children(c, mask=None):
    if c.atomic is not None and any(c.atomic):
        mask = [(True if mask is None else bool(m)) and not a for m, a in zip(mask or [True] * len(c.kind), c.atomic)]
    if mask is None or all(mask):
        return c.children()
    # subdivide only the masked factors: treat the others as un-subdivided by using a single "child" = the factor itself
    import itertools
    per_factor = []
    for n, m in zip(c.kind, mask):
        if m:
            per_factor.append(G._SUBSIMPLICES[n])
        else:
            ident = [tuple(G.ZERO for _ in range(n))] + [tuple(G.ONE if i == j else G.ZERO for i in range(n)) for j in range(n)]
            per_factor.append([ident])
    out = []
    for combo in itertools.product(*per_factor):
        lam0 = tuple(x for sub in combo for x in sub[0])
        v0 = c.to_ambient(lam0)
        E = []
        off = 0
        for n, sub in zip(c.kind, combo):
            for i in range(1, n + 1):
                e = tuple(G.ZERO for _ in range(c.d))
                for j in range(n):
                    l = sub[i][j] - sub[0][j]
                    if l != 0:
                        e = G.vadd(e, G.vscale(c.E[off + j], l))
                E.append(e)
            off += n
        ch = G.Cell(c.kind, v0, E, c.cuts)
        if ch.poly is not None:
            out.append(ch)
    return out


def select(ms, keys, **kw):
    return ms.derive({k: ms.cells[k] for k in keys}, **kw)


def remove(ms, keys, **kw):
    return ms.derive({k: c for k, c in ms.cells.items() if k not in keys}, **kw)


def trimmed(ms, a, c, sign):
    'cells intersected with sign*(a.x - c) >= 0; cells of measure zero disappear'
    a = tuple(G.exact(x) for x in a)
    c = G.exact(c)
    out = {}
    for key, cell in ms.cells.items():
        if cell.kind is None:
            raise ModelUndefined('trim of a free polytope')
        t = cell.with_cut(a, c, sign)
        if t.poly is not None:
            out[key] = t
    return ms.derive(out)


def product(ms, line_cells):
    out = {}
    for c in ms.cells.values():
        if c.kind is None:
            raise ModelUndefined('product of a free polytope')
        for l in line_cells:
            p = c.product(l)
            out[p.key] = p
    nf = None
    for c in ms.cells.values():
        nf = len(c.kind)
    return MState(ms.d + 1, out, periods=[p + (G.ZERO,) for p in ms.periods], codim=ms.codim, periodic_ok=ms.periodic_ok, factors=nf)


def group_select(ms, a, c, sign):
    'cells all of whose vertices satisfy sign*(a.x - c) >= 0'
    a = tuple(G.exact(x) for x in a)
    c = G.exact(c)
    keys = [k for k, cell in ms.cells.items() if all(sign * (G.dot(a, v) - c) >= 0 for v in cell.pverts)]
    return select(ms, keys)


# ------------------------------------------------------------------------------------------------ faces

class FaceTable:
    '''facets of a list of full dimensional cells: which parts are shared between two cells (interior faces) and
    which are exposed (boundary).  Measures are floats derived from exact intersections.  Periodicity: a facet j
    translated by a period p may coincide with a facet i; every such physical face is found once, as (i, j, +p).'''

    def __init__(self, items, periods=()):
        # items: list of (id, Cell)
        self.items = items
        self.facets = []           # (id, plane key, orientation, n, verts)
        planes = {}
        for cid, cell in items:
            for n, beta, verts in cell.facets():
                first = next(x for x in n if x != 0)
                if first < 0:
                    pk = (tuple(-x for x in n), -beta)
                    o = -1
                else:
                    pk = (n, beta)
                    o = 1
                planes.setdefault(pk, []).append(len(self.facets))
                self.facets.append((cid, pk, o, n, verts))
        self.shared = {}           # frozenset({id1, id2}) -> measure
        self.nshared = {}          # same -> number of distinct facet pairs
        self.overlap_same = 0.     # same-orientation overlaps (cells overlapping): must stay 0
        covered = [0.] * len(self.facets)

        fsets = [frozenset(f[4]) for f in self.facets]
        fmeas = [G.facet_measure(f[3], f[4]) for f in self.facets]
        self._fmeas = fmeas

        def bbox(vs):
            d = len(vs[0])
            return [(min(float(v[i]) for v in vs), max(float(v[i]) for v in vs)) for i in range(d)]
        boxes = [bbox(f[4]) for f in self.facets]

        def meet(i, j, vj, shifted=False):
            fi, fj = self.facets[i], self.facets[j]
            bj = bbox(vj) if shifted else boxes[j]
            npos = 0
            for (lo1, hi1), (lo2, hi2) in zip(boxes[i], bj):
                e = min(hi1, hi2) - max(lo1, lo2)
                if e < -1e-12:
                    return
                if e > 1e-12:
                    npos += 1
            if npos < len(bj) - 1:
                return
            if fsets[i] == (frozenset(vj) if shifted else fsets[j]):
                m = fmeas[i]
            else:
                m = G.facet_overlap(fi[1][0], fi[4], vj)
            if m <= 0:
                return
            if fi[2] == fj[2]:
                self.overlap_same += m
                return
            pair = frozenset([fi[0], fj[0]])
            self.shared[pair] = self.shared.get(pair, 0.) + m
            self.nshared[pair] = self.nshared.get(pair, 0) + 1
            covered[i] += m
            covered[j] += m

        for pk, lst in planes.items():
            for x in range(len(lst)):
                for y in range(x + 1, len(lst)):
                    if self.facets[lst[x]][0] != self.facets[lst[y]][0]:
                        meet(lst[x], lst[y], self.facets[lst[y]][4])
        for p in periods:
            for j, (cid, pk, o, n, verts) in enumerate(self.facets):
                npk = (pk[0], pk[1] + G.dot(pk[0], p))
                if npk == pk or npk not in planes:
                    continue
                vj = [G.vadd(v, p) for v in verts]
                for i in planes[npk]:
                    if i != j:
                        meet(i, j, vj, True)
        self.exposed = []
        self.nflux = [0.] * (items[0][1].d if items else 0)
        self.total_exposed = 0.
        for idx, (cid, pk, o, n, verts) in enumerate(self.facets):
            m = fmeas[idx]
            e = m - covered[idx]
            self.exposed.append(e)
            if e > 1e-12:
                self.total_exposed += e
                nn = math.sqrt(float(G.dot(n, n)))
                for i in range(len(n)):
                    self.nflux[i] += e * float(n[i]) / nn

    def multi_adjacent(self):
        return any(v > 1 for v in self.nshared.values())
