'''C19 reference values: two-sided truncated Taylor jets in plain numpy.

Every namespace variable is a known polynomial in the geometry x (2-D) plus a
piecewise constant jump across one interface.  All expressions are evaluated
in ONE point of that interface.  A reference value (`Val`) is an ndarray of
shape (2,) + shape + (M,): axis 0 is the side of the interface (0 = the side
on which nutils evaluates, 1 = the opposite side), the last axis holds the
Taylor coefficients in (x0-p0, x1-p1) up to total degree ORDER.  Gradients,
jump and mean therefore have exact, nutils-independent reference semantics.
'''

import math
import numpy

ORDER = 4
MONOS = [(p, q) for d in range(ORDER + 1) for p in range(d, -1, -1) for q in [d - p]]
M = len(MONOS)
_IDX = {m: i for i, m in enumerate(MONOS)}

# K[c, a, b] = 1 if mono_a * mono_b = mono_c (total degree <= ORDER, else dropped)
K = numpy.zeros((M, M, M))
for _a, (_p1, _q1) in enumerate(MONOS):
    for _b, (_p2, _q2) in enumerate(MONOS):
        _c = _IDX.get((_p1 + _p2, _q1 + _q2))
        if _c is not None:
            K[_c, _a, _b] = 1.
# D[k][c, a]: coefficient c of d/dx_k of a series = sum_a D[k][c,a] coeff_a
D = numpy.zeros((2, M, M))
for _a, (_p, _q) in enumerate(MONOS):
    if _p:
        D[0, _IDX[(_p - 1, _q)], _a] = _p
    if _q:
        D[1, _IDX[(_p, _q - 1)], _a] = _q


class Undefined(Exception):
    'the reference value is not defined / not trustworthy here (division by ~0, negative base, derivative order exhausted)'


class Val:
    '''two-sided jet; `order` is the number of derivatives that may still be taken'''

    __slots__ = 'c', 'order'

    def __init__(self, c, order=ORDER):
        self.c = c
        self.order = order

    @property
    def shape(self):
        return self.c.shape[1:-1]

    @property
    def ndim(self):
        return self.c.ndim - 2

    def value(self):
        'point value on the evaluation side'
        return self.c[0, ..., 0]

    def is_uniform_scalar_const(self):
        'scalar, the same on both sides, no dependence on x: returns the float or None'
        if self.ndim == 0 and not self.c[:, 1:].any() and self.c[0, 0] == self.c[1, 0]:
            return float(self.c[0, 0])
        return None


def const(a):
    a = numpy.asarray(a, dtype=float)
    c = numpy.zeros((2,) + a.shape + (M,))
    c[..., 0] = a
    return Val(c)


def sided(this, opp):
    this = numpy.asarray(this, dtype=float)
    c = numpy.zeros((2,) + this.shape + (M,))
    c[0, ..., 0] = this
    c[1, ..., 0] = opp
    return Val(c)


def coordinate(k, p):
    'the jet of x_k around the point p'
    c = numpy.zeros((2, M))
    c[:, 0] = p[k]
    c[:, _IDX[(1, 0) if k == 0 else (0, 1)]] = 1.
    return Val(c)


def add(a, b):
    if a.shape != b.shape:
        raise AssertionError('reference add: shapes {} {}'.format(a.shape, b.shape))
    return Val(a.c + b.c, min(a.order, b.order))


def sub(a, b):
    if a.shape != b.shape:
        raise AssertionError('reference sub: shapes {} {}'.format(a.shape, b.shape))
    return Val(a.c - b.c, min(a.order, b.order))


def neg(a):
    return Val(-a.c, a.order)


def scale(a, f):
    return Val(a.c * f, a.order)


def outer(a, b):
    'tensor product: shape a.shape + b.shape'
    na = int(numpy.prod(a.shape, dtype=int))
    nb = int(numpy.prod(b.shape, dtype=int))
    c = numpy.einsum('sxa,syb,cab->sxyc', a.c.reshape(2, na, M), b.c.reshape(2, nb, M), K)
    return Val(c.reshape((2,) + a.shape + b.shape + (M,)), min(a.order, b.order))


def pointwise_mul(a, b):
    'a and b of equal shape, or b scalar'
    if b.ndim == 0 and a.ndim:
        bc = b.c.reshape((2,) + (1,) * a.ndim + (M,))
    else:
        bc = b.c
    return Val(numpy.einsum('...a,...b,cab->...c', a.c, bc, K), min(a.order, b.order))


def take(a, axis, index):
    assert 0 <= axis < a.ndim and 0 <= index < a.shape[axis]
    return Val(numpy.take(a.c, index, axis=axis + 1), a.order)


def trace(a, ax1, ax2):
    assert ax1 != ax2 and a.shape[ax1] == a.shape[ax2]
    return Val(_trace_fix(a.c, ax1, ax2), a.order)


def _trace_fix(c, ax1, ax2):
    'sum of the diagonal over axes ax1, ax2 (array axes, not counting the side axis); jet axis stays last'
    d = numpy.diagonal(c, axis1=ax1 + 1, axis2=ax2 + 1)  # diagonal axis appended after the jet axis
    return d.sum(-1)


def transpose(a, axes):
    assert sorted(axes) == list(range(a.ndim))
    return Val(numpy.transpose(a.c, (0,) + tuple(i + 1 for i in axes) + (a.ndim + 1,)), a.order)


def sum_last(a, n):
    'sum over the last n array axes'
    c = a.c
    for _ in range(n):
        c = c.sum(-2)
    return Val(c, a.order)


def stack(vals):
    'stack equal-shaped values along a new FIRST array axis'
    return Val(numpy.stack([v.c for v in vals], axis=1), min(v.order for v in vals))


def stack_last(vals):
    'stack equal-shaped values along a new LAST array axis'
    return Val(numpy.stack([v.c for v in vals], axis=-2), min(v.order for v in vals))


def append_axis(a, n):
    c = numpy.repeat(a.c[..., numpy.newaxis, :], n, axis=-2)
    return Val(c, a.order)


def jump(a):
    return Val(a.c[::-1] - a.c, a.order)


def mean(a):
    return Val(.5 * (a.c[::-1] + a.c), a.order)


def opposite(a):
    return Val(a.c[::-1].copy(), a.order)


def grad(a):
    'gradient to x: new last array axis of length 2'
    if a.order < 1:
        raise Undefined('derivative order exhausted')
    c = numpy.stack([a.c @ D[0].T, a.c @ D[1].T], axis=-2)
    return Val(c, a.order - 1)


def surfgrad(a):
    'the interface is the line x0 = const with normal (+-1, 0): the tangential gradient keeps d/dx1 only'
    g = grad(a)
    g.c[..., 0, :] = 0.
    return g


def normal():
    return sided([1., 0.], [-1., 0.])


def compose(a, taylor):
    '''apply an analytic scalar function pointwise; taylor(s0, k) returns
    phi^(k)(s0)/k! as an array like s0 for k = 0..ORDER'''
    s0 = a.c[..., 0]
    t = a.c.copy()
    t[..., 0] = 0.
    out = numpy.zeros_like(a.c)
    out[..., 0] = taylor(s0, 0)
    tk = None
    for k in range(1, ORDER + 1):
        tk = t if tk is None else numpy.einsum('...a,...b,cab->...c', tk, t, K)
        if not tk.any():
            break
        out += taylor(s0, k)[..., numpy.newaxis] * tk
    return Val(out, a.order)


def _binom(n, k):
    r = 1.
    for i in range(k):
        r *= (n - i) / (i + 1)
    return r


def power_const(a, n):
    'a ** n for a real constant n'
    s0 = a.c[..., 0]
    isint = float(n).is_integer()
    if not isint and (s0 <= 1e-6).any():
        raise Undefined('non-integer power of a non-positive base')
    if isint and n < 0 and (abs(s0) < 1e-6).any():
        raise Undefined('negative power of ~0')

    def taylor(s0, k):
        b = _binom(n, k)
        if b == 0.:
            return numpy.zeros_like(s0)
        if isint and n - k >= 0:
            return b * s0 ** int(n - k)
        with numpy.errstate(all='ignore'):
            return b * numpy.power(s0, n - k)
    out = compose(a, taylor)
    if not numpy.isfinite(out.c).all():
        raise Undefined('non-finite power')
    return out


def reciprocal(a):
    return power_const(a, -1)


def exp(a):
    return compose(a, lambda s0, k: numpy.exp(s0) / math.factorial(k))


def log(a):
    s0 = a.c[..., 0]
    if (s0 <= 1e-6).any():
        raise Undefined('log of a non-positive value')
    return compose(a, lambda s0, k: numpy.log(s0) if k == 0 else (-1.) ** (k - 1) / (k * s0 ** k))


def divide(a, b):
    assert b.ndim == 0
    s0 = b.c[..., 0]
    if (abs(s0) < 1e-3).any():
        raise Undefined('division by ~0')
    return pointwise_mul(a, reciprocal(b))


def power(a, e):
    assert e.ndim == 0
    n = e.is_uniform_scalar_const()
    if n is not None:
        if abs(n) > 12:
            raise Undefined('huge exponent')
        return power_const(a, n)
    # general exponent: exp(e log a), defined for a > 0
    return exp(pointwise_mul(log(a), e))


def finite(a):
    return bool(numpy.isfinite(a.c).all())


def derivs(a, maxorder=None):
    '''value array on the evaluation side (shape) -- helper for comparisons'''
    return a.c[0, ..., 0]
