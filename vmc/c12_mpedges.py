'''C12 supplement: multipatch spline bases with PER-EDGE knot multiplicities.  Added after an independently seeded change
(the multiplicities of an edge given in the direction opposite to the patch's own were no longer reversed) was missed: the
main enumeration only used the global `{None: m}` form.  For a two-patch domain, every degree 2..3 and EVERY multiplicity
vector (interior entries 1..p) on the vertical edges, given (a) on edge (0,1), (b) on the reversed edge (1,0) with the reversed
vector, (c) on another parallel edge: all specifications must give the same basis (dofs and coefficients per element), the basis
must be a partition of unity, and across every interior knot line the y-derivative jumps iff the multiplicity there is p.'''

import itertools, json
import numpy


def build(nelems, p, spec):
    import treelog
    from nutils import mesh
    with treelog.set(treelog.NullLog()):
        topo, geom = mesh.multipatch(patches=[[0, 1, 2, 3], [2, 3, 4, 5]], patchverts=[[0, 0], [0, 1], [1, 0], [1, 1], [2, 0], [2, 1]], nelems=nelems)
        km = {None: None}
        km.update({tuple(k): tuple(v) for k, v in spec})
        basis = topo.basis('spline', degree=p, knotmultiplicities=km)
    return topo, geom, basis


def tables(topo, basis):
    return [(numpy.asarray(basis.get_dofs(i)).tolist(), numpy.round(numpy.asarray(basis.get_coefficients(i)), 12).tolist()) for i in range(len(topo))]


def check(nelems, p, m):
    'm: multiplicities at the nelems+1 knots of the vertical direction, listed bottom (vertex 0) to top (vertex 1)'
    import treelog
    from nutils import function
    m = list(m)
    r = m[::-1]   # every vertical edge of both patches must be specified; each may be given in either direction
    specs = {'forward': [((0, 1), m), ((2, 3), m), ((4, 5), m)], 'reversed': [((1, 0), r), ((3, 2), r), ((5, 4), r)],
             'mixed': [((0, 1), m), ((3, 2), r), ((4, 5), m)], 'mixed2': [((1, 0), r), ((2, 3), m), ((5, 4), r)]}
    out = {}
    for name, spec in specs.items():
        try:
            topo, geom, basis = build(nelems, p, spec)
        except Exception as e:
            return ('mpedge:raised:' + type(e).__name__, 'specification {} {} raised {!r}'.format(name, spec, e))
        out[name] = (topo, geom, basis, tables(topo, basis))
    ref = out['forward'][3]
    for name in ('reversed', 'mixed', 'mixed2'):
        if out[name][3] != ref:
            return ('mpedge:equivalent-specifications-differ:' + name, 'knotmultiplicities {} and {} (nelems={}, degree={}) must describe the same basis but the dof/coefficient tables differ'.format(
                specs['forward'], specs[name], nelems, p))
    topo, geom, basis, _ = out['forward']
    with treelog.set(treelog.NullLog()):
        vals = topo.sample('gauss', p + 1).eval(basis)
        if not numpy.allclose(vals.sum(1), 1, atol=1e-12):
            return ('mpedge:partition-of-unity', 'basis with {} does not sum to one'.format(specs['forward']))
        smp = topo.interfaces.sample('gauss', 2)
        x, jmp = smp.eval([geom, function.jump(function.grad(basis, geom)[:, 1])])
    for k in range(1, nelems):
        yk = k / nelems
        sel = abs(x[:, 1] - yk) < 1e-9
        if not sel.any():
            continue
        jump = abs(jmp[sel]).max()
        expect_jump = m[k] >= p       # C^(p-m): the first derivative is continuous iff m <= p-1
        if (jump > 1e-9) != expect_jump:
            return ('mpedge:continuity', 'multiplicities {} bottom-to-top, degree {}: jump of d/dy at y={} is {:.3g} but the multiplicity there is {}'.format(m, p, yk, jump, m[k]))
    return None


def shards(tier):
    return [{'family': 'mpedges', 'nelems': n, 'degree': p} for n in ((2, 3) if tier == 'quick' else (2, 3, 4)) for p in (2, 3)]


def run(spec, tier, res):
    n, p = spec['nelems'], spec['degree']
    for mid in itertools.product(range(1, p + 1), repeat=n - 1):
        for ends in ((p + 1, p + 1),):
            m = [ends[0]] + list(mid) + [ends[1]]
            w = {'family': 'mpedges', 'nelems': n, 'degree': p, 'm': m}
            res.count('evaluations')
            try:
                r = check(n, p, m)
            except Exception as e:
                r = ('mpedge:harness:' + type(e).__name__, repr(e))
            if r:
                res.violation(r[0], r[1], w)
            elif m != m[::-1]:
                res.distinct('distinct_nontrivial', json.dumps(w))
    res.sample({'family': 'mpedges', 'nelems': n, 'degree': p, 'example': {'(0,1),(2,3),(4,5)': [p + 1] + [1] * (n - 1) + [p + 1]}})


def replay(w):
    r = check(w['nelems'], w['degree'], w['m'])
    return None if r is None else '{}: {}'.format(*r)
