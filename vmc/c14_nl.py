'''C14 parts (b) and (c): System.solve / legacy wrappers on a finite family of
residuals and energies, and System.step sequences with bisection retries.

The reference never calls nutils: every family member comes with a hand
written numpy formula for the residual (as a list of terms, so that a rounding
scale is available).
'''

import itertools, json, math
import numpy
from . import core

CV = [.5, -1.25]


# ------------------------------------------------------------------ problem family

def _arr(v):
    return numpy.array(v, dtype=float)


class Problem:
    '''spec -> nutils object + numpy reference.  terms(u) returns the list of
    arrays whose sum is the residual of the free equations' parent vector.'''

    def __init__(self, spec):
        self.spec = spec
        fam = spec['fam']
        self.functional = fam in ('quad', 'conv', 'ncvx')
        self.linear = fam in ('lin', 'quad')
        if fam in ('lin', 'quad'):
            self.n = len(spec['b'])
        elif fam in ('sq', 'exp'):
            self.n = len(spec['a'])
        elif fam in ('sq2', 'conv', 'ncvx'):
            self.n = 2
        else:
            self.n = 1

    def terms(self, u):
        s = self.spec
        fam = s['fam']
        with numpy.errstate(all='ignore'):
            if fam in ('lin', 'quad'):
                A = _arr(s['A'])
                return [A[:, j] * u[j] for j in range(self.n)] + [-_arr(s['b'])]
            if fam == 'sq':
                return [u * u, -_arr(s['a'])]
            if fam == 'sq2':
                return [_arr([u[0] * u[0], u[1] * u[1]]), _arr([u[1], u[0]]), _arr([-3., -5.])]
            if fam == 'exp':
                return [numpy.exp(u), -_arr(s['a'])]
            if fam == 'log':
                return [numpy.log(u)]
            if fam == 'sqrt':
                return [numpy.sqrt(u), _arr([-2.])]
            if fam == 'atan':
                return [numpy.arctan(u)]
            if fam == 'cubic':
                return [u * u * u, -2 * u, _arr([2.])]
            if fam == 'conv':
                A = _arr([[2., 1.], [1., 2.]])
                return [u * u * u, A[:, 0] * u[0], A[:, 1] * u[1], _arr([-1., -2.])]
            if fam == 'ncvx':
                return [u * u * u, -u, .5 * u[::-1]]
        raise core.HarnessError(fam)

    def jac(self, u):
        'numpy jacobian, only used to decide whether a machine-precision answer may be demanded (tol=0 direct solves)'
        s = self.spec
        if s['fam'] in ('lin', 'quad'):
            return _arr(s['A'])
        return None

    def nutils(self):
        from nutils import function
        s = self.spec
        fam = s['fam']
        u = function.Argument('u', (self.n,))
        if fam == 'lin':
            return [function.asarray(_arr(s['A'])) @ u - _arr(s['b'])]
        if fam == 'quad':
            return .5 * (u @ (function.asarray(_arr(s['A'])) @ u)) - function.asarray(_arr(s['b'])) @ u
        if fam == 'sq':
            return [u**2 - _arr(s['a'])]
        if fam == 'sq2':
            return [numpy.stack([u[0]**2 + u[1] - 3., u[0] + u[1]**2 - 5.])]
        if fam == 'exp':
            return [numpy.exp(u) - _arr(s['a'])]
        if fam == 'log':
            return [numpy.log(u)]
        if fam == 'sqrt':
            return [numpy.sqrt(u) - 2.]
        if fam == 'atan':
            return [numpy.arctan(u)]
        if fam == 'cubic':
            return [u**3 - 2 * u + 2.]
        if fam == 'conv':
            A = function.asarray(_arr([[2., 1.], [1., 2.]]))
            return (u**4).sum() / 4 + .5 * (u @ (A @ u)) - function.asarray(_arr([1., 2.])) @ u
        if fam == 'ncvx':
            return ((u**2 - 1.)**2).sum() / 4 + .5 * u[0] * u[1]
        raise core.HarnessError(fam)

    def system(self):
        from nutils import solver
        obj = self.nutils()
        return solver.System(obj, 'u')


def problems(tier):
    'each entry: (spec, initial guesses); None = no initial guess supplied'
    P = []
    for A, b in (([[2.]], [1.]), ([[0.]], [1.]), ([[2., 1.], [1., 2.]], [1., 0.]), ([[1., 2.], [0., -1.]], [1., 1.]), ([[1., 1.], [1., 1.]], [1., 0.]), ([[0., 1.], [1., 0.]], [1., 2.])):
        P.append(({'fam': 'lin', 'A': A, 'b': b}, [None, [3., -1.][:len(b)]]))
    for A, b in (([[2., 1.], [1., 2.]], [1., 0.]), ([[1., 1.], [1., 1.]], [1., 0.]), ([[1., 2.], [2., 1.]], [1., 1.])):
        P.append(({'fam': 'quad', 'A': A, 'b': b}, [None, [3., -1.]]))
    P.append(({'fam': 'sq', 'a': [2.]}, [None, [1.], [10.], [-3.]]))
    P.append(({'fam': 'sq', 'a': [0.]}, [[1.]]))
    P.append(({'fam': 'sq', 'a': [-1.]}, [[1.]]))
    P.append(({'fam': 'sq', 'a': [2., 3.]}, [[1., 1.], [1., 10.]]))
    P.append(({'fam': 'sq2'}, [[1., 1.], None, [10., -10.]]))
    P.append(({'fam': 'exp', 'a': [2.]}, [None, [5.], [-30.]]))
    P.append(({'fam': 'exp', 'a': [-1.]}, [None]))
    P.append(({'fam': 'log'}, [[10.], [.5], [2.], None]))
    P.append(({'fam': 'sqrt'}, [[25.], [1.], None]))
    P.append(({'fam': 'atan'}, [[.5], [2.], None]))
    P.append(({'fam': 'cubic'}, [None, [-2.], [1.]]))
    P.append(({'fam': 'conv'}, [None, [1., 10.]]))
    P.append(({'fam': 'ncvx'}, [None, [2., 2.], [.1, -.1]]))
    return P


def constraint_patterns(n):
    out = [None]
    for m in itertools.product([False, True], repeat=n):
        if any(m):
            out.append({'t': 'b', 'v': list(m)})
            out.append({'t': 'f', 'v': [CV[i] if c else None for i, c in enumerate(m)]})
    return out


METHODS = ['default', 'direct', 'newton', 'reuse', 'ls-norm', 'ls-median', 'minimize', 'arnoldi', 'pseudo1', 'pseudo100']
LEGACY = ['solve_linear', 'newton', 'newton-plain', 'minimize', 'pseudotime', 'optimize', 'newton-withinfo']


def make_method(name, prob):
    from nutils import solver, function
    if name == 'default':
        return None
    if name == 'direct':
        return solver.Direct()
    if name == 'newton':
        return solver.Newton()
    if name == 'reuse':
        return solver.ReuseNewton()
    if name == 'ls-norm':
        return solver.LinesearchNewton(strategy=solver.NormBased())
    if name == 'ls-median':
        return solver.LinesearchNewton(strategy=solver.MedianBased())
    if name == 'minimize':
        return solver.Minimize()
    if name == 'arnoldi':
        return solver.Arnoldi()
    if name.startswith('pseudo'):
        u = function.Argument('u', (prob.n,))
        return solver.Pseudotime(inertia=[u.as_evaluable_array], timestep=float(name[6:]))
    raise core.HarnessError(name)


def _cons_array(cons):
    if cons is None:
        return None
    if cons['t'] == 'b':
        return numpy.array(cons['v'], dtype=bool)
    return numpy.array([numpy.nan if v is None else v for v in cons['v']], dtype=float)


def _where(e):
    'innermost nutils function an unexpected exception escaped from (names the root cause in violation keys)'
    name = '?'
    tb = e.__traceback__
    while tb is not None:
        code = tb.tb_frame.f_code
        if '/nutils/' in code.co_filename:
            name = code.co_filename.rsplit('/', 1)[-1][:-3] + '.' + getattr(code, 'co_qualname', code.co_name)
        tb = tb.tb_next
    return name


def execute(S, prob, c):
    '''run one request; returns ('returned', u ndarray | other) / ('raised', typename, family, msg)'''
    from nutils import solver, matrix
    u0 = None if c['u0'] is None else _arr(c['u0'])
    cons = _cons_array(c['cons'])
    api = c['api']
    try:
        with numpy.errstate(all='ignore'), core.alarm(60):
            if api == 'system':
                kw = {}
                if c['maxiter'] is not None:
                    kw['maxiter'] = c['maxiter']
                out = S.solve(arguments={} if u0 is None else {'u': u0}, constrain={} if cons is None else {'u': cons},
                              tol=c['tol'], miniter=c['miniter'], method=make_method(c['method'], prob), **kw)
                out = out['u'] if isinstance(out, dict) and 'u' in out else out
            else:
                obj = prob.nutils()
                target = 'u'
                res = obj if prob.functional else obj[0]
                if prob.functional and api in ('newton', 'newton-plain', 'newton-withinfo', 'pseudotime', 'solve_linear'):
                    res = obj.derivative('u')
                common = dict(constrain=cons, lhs0=u0)
                if api == 'solve_linear':
                    out = solver.solve_linear(target, res, **common)
                elif api == 'optimize':
                    out = solver.optimize(target, res, tol=c['tol'], **common)
                else:
                    if api in ('newton', 'newton-withinfo'):
                        it = solver.newton(target, res, **common)
                    elif api == 'newton-plain':
                        it = solver.newton(target, res, linesearch=None, **common)
                    elif api == 'minimize':
                        it = solver.minimize(target, res, **common)
                    elif api == 'pseudotime':
                        from nutils import function
                        it = solver.pseudotime(target, res, function.Argument('u', (prob.n,)), 1., **common)
                    else:
                        raise core.HarnessError(api)
                    if api == 'newton-withinfo':
                        out, info = it.solve_withinfo(c['tol'], maxiter=c['maxiter'], miniter=c['miniter'])
                    else:
                        out = it.solve(c['tol'], maxiter=c['maxiter'], miniter=c['miniter'])
    except core.Timeout:
        return ('timeout',)
    except solver.SolverError as e:
        return ('raised', 'SolverError', 'ok', str(e)[:60])
    except matrix.MatrixError as e:
        return ('raised', type(e).__name__, 'ok', str(e)[:60])
    except ValueError as e:
        return ('raised', 'ValueError@' + _where(e), 'value', str(e)[:80])
    except Exception as e:
        return ('raised', type(e).__name__ + '@' + _where(e), 'other', str(e)[:200])
    return ('returned', out)


def valid_request(prob, c):
    'None if the request is one the documentation supports, else the reason a ValueError is the documented answer'
    api = c['api']
    if api == 'system':
        m = c['method']
        iterative = not (m == 'direct' or (m == 'default' and prob.linear))
        if m in ('direct', 'arnoldi') and not prob.linear:
            return 'method requires a linear problem'
        if m == 'minimize' and not prob.functional:
            return 'minimize requires a functional'
        if iterative and c['tol'] <= 0:
            return 'iterative method requires tol > 0'
        return None
    if api == 'solve_linear':
        return None  # nonlinear -> SolverError by contract
    if api == 'minimize' and not prob.functional:
        return 'minimize requires a functional'
    if api in ('newton', 'newton-plain', 'minimize', 'pseudotime', 'newton-withinfo') and c['miniter'] > c['maxiter']:
        return 'miniter > maxiter'
    if api == 'optimize':
        if not prob.functional:
            return 'optimize requires a scalar functional'
        if not prob.linear and c['tol'] <= 0:
            return 'iterative method requires tol > 0'
    return None


def prescription(n, c):
    'free mask and the vector holding the prescribed values at the constrained entries'
    u0 = numpy.zeros(n) if c['u0'] is None else _arr(c['u0'])
    cons = c['cons']
    p = u0.copy()
    if cons is None:
        free = numpy.ones(n, dtype=bool)
    elif cons['t'] == 'b':
        free = ~numpy.array(cons['v'], dtype=bool)
    else:
        free = numpy.array([v is None for v in cons['v']], dtype=bool)
        for i, v in enumerate(cons['v']):
            if v is not None:
                p[i] = v
    return free, p


def judge(prob, c, out):
    'None or (key, description)'
    if out[0] == 'timeout':
        return None  # a hang is not this property's concern; counted by the caller
    name = c['method'] if c['api'] == 'system' else c['api']
    # the stopping test lives in two places: System.solve (also behind solve_linear / optimize) and the legacy _with_solve.solve_withinfo
    site = 'System.solve' if c['api'] in ('system', 'solve_linear', 'optimize') else '_with_solve'
    invalid = valid_request(prob, c)
    if out[0] == 'raised':
        if out[2] == 'ok':
            return None
        if out[2] == 'value' and invalid:
            return None
        return 'nl:raised-unexpected:{}'.format(out[1]), '{} on a {} request raised {}({!r})'.format(name, 'supported' if not invalid else 'unsupported (' + invalid + ')', out[1], out[3])
    u = out[1]
    if invalid and not (invalid == 'miniter > maxiter'):
        # an unsupported request that returns anyway is judged like any other answer below
        pass
    if not isinstance(u, numpy.ndarray) or u.shape != (prob.n,):
        return 'nl:bad-shape:' + site, 'returned {!r}'.format(u)
    free, p = prescription(prob.n, c)
    if not numpy.isfinite(u).all():
        return 'nl:nonfinite-returned:' + site, 'returned non-finite values {}'.format(u.tolist())
    if u[~free].tobytes() != p[~free].tobytes():
        return 'nl:constraint-violated:' + site, 'constrained entries {} differ from the prescription {}'.format(u[~free].tolist(), p[~free].tolist())
    terms = prob.terms(u)
    with numpy.errstate(all='ignore'):
        r = sum(terms)[free]
        mag = float(sum(abs(t) for t in terms)[free].max(initial=0.))
        rn = float(numpy.sqrt((r * r).sum()))
    if not numpy.isfinite(r).all():
        return 'nl:nonfinite-residual-returned:' + site, 'returned u={} at which the residual of the free equations is {} (outside the domain of the problem)'.format(u.tolist(), r.tolist())
    tol = c['tol']
    if tol > 0 or c['api'] != 'system' and c['api'] not in ('solve_linear', 'optimize'):
        if not rn <= tol * (1 + 1e-9) + 1e-12 * mag:
            return 'nl:unconverged-returned:' + site, 'returned u={} with free residual norm {:.3e} > tol={:g}'.format(u.tolist(), rn, tol)
    elif not rn <= 1e-8 * mag:
        J = prob.jac(u)
        if J is not None and free.any() and numpy.linalg.cond(J[numpy.ix_(free, free)]) < 1e6:
            return 'nl:unconverged-returned:tol0:' + site, 'no tolerance requested (direct solve) on a well-conditioned linear problem; returned u={} with residual {:.3e}'.format(u.tolist(), rn)
    return None


def brief(c):
    return '{} u0={} cons={} {} tol={:g} maxiter={} miniter={}'.format(json.dumps(c['prob']), c['u0'], None if c['cons'] is None else c['cons']['v'],
                                                                      c['method'] if c['api'] == 'system' else 'legacy ' + c['api'], c['tol'], c['maxiter'], c['miniter'])


def requests(spec, guesses, tier, methods, legacy):
    prob = Problem(spec)
    th = tier == 'thorough'
    tols = [0., 1e-10, 1e-3]
    combos = [(mx, mn) for mx in (1, 3, 25) for mn in (0, 2)]
    for method in methods:
        for u0 in guesses:
            for cons in constraint_patterns(prob.n):
                for tol in tols:
                    if method == 'direct' or method == 'default' and prob.linear:
                        yield {'api': 'system', 'prob': spec, 'u0': u0, 'cons': cons, 'method': method, 'tol': tol, 'maxiter': None, 'miniter': 0}
                        continue
                    for maxiter, miniter in combos:
                        if method == 'arnoldi' and miniter > 1:
                            continue  # the arnoldi method is a finite (<= maxiter+2 stage) iteration; asking for more stages is not a meaningful request
                        yield {'api': 'system', 'prob': spec, 'u0': u0, 'cons': cons, 'method': method, 'tol': tol, 'maxiter': maxiter, 'miniter': miniter}
    # the legacy wrappers build a new System per call (30-50 ms): in the quick tier a fixed slice of guesses x constraints x iteration limits
    allcons = constraint_patterns(prob.n)
    for api in legacy:
        if api in ('minimize', 'optimize') and not prob.functional:
            continue
        for u0 in (guesses if th else guesses[:2]):
            for cons in (allcons if th else [allcons[0], allcons[1], allcons[-1]]):
                for tol in (tols if th else tols[:2]):
                    if api in ('solve_linear', 'optimize'):
                        if api == 'solve_linear' and tol != tols[0]:
                            continue
                        yield {'api': api, 'prob': spec, 'u0': u0, 'cons': cons, 'method': None, 'tol': tol, 'maxiter': None, 'miniter': 0}
                        continue
                    for maxiter, miniter in ((1, 0), (1, 2), (3, 0), (25, 0), (25, 2)) if th else ((1, 2), (3, 0), (25, 0)):
                        yield {'api': api, 'prob': spec, 'u0': u0, 'cons': cons, 'method': None, 'tol': tol, 'maxiter': maxiter, 'miniter': miniter}


def explore(res, spec, guesses, tier, methods, legacy):
    '''all requests of one problem for the given methods; ONE System object per (problem, method) so that its compiled-function
    and matrix caches are exercised across constraint patterns; a violation is re-run on a fresh System to obtain a one-request witness'''
    prob = Problem(spec)
    groups = {}
    for c in requests(spec, guesses, tier, methods, legacy):
        groups.setdefault(c['method'] or 'legacy-' + c['api'], []).append(c)
    for name, cases in groups.items():
        S = prob.system() if cases[0]['api'] == 'system' else None
        hist = []
        res.count('states')
        for c in cases:
            out = execute(S, prob, c)
            hist.append(c)
            res.count('evaluations')
            res.count('transitions')
            if out[0] == 'timeout':
                res.count('timeouts')
            v = judge(prob, c, out)
            res.distinct('distinct_outcomes', 'nl:{}:{}:{}'.format(name, spec['fam'], out[0] if out[0] != 'raised' else out[1] + ':' + out[3][:30]))
            if v:
                fresh = judge(prob, c, execute(prob.system() if S is not None else None, prob, c))
                w = {'part': 'nl', 'hist': [c]} if fresh else {'part': 'nl', 'hist': list(hist)}
                res.violation(v[0] + ('' if fresh else ':history'), '{}: {}'.format(brief(c), v[1]), w)
                continue
            res.count('traces_validated_against_impl')
            free, p = prescription(prob.n, c)
            if free.any() and not valid_request(prob, c):
                res.distinct('distinct_nontrivial', json.dumps(c))
        if len(res.samples) < 3:
            res.sample({'part': 'nl', 'problem': spec, 'method': name, 'requests': len(cases)})


def replay(w):
    hist = w['hist']
    prob = Problem(hist[0]['prob'])
    S = prob.system() if hist[0]['api'] == 'system' else None
    for i, c in enumerate(hist):
        v = judge(prob, c, execute(S, prob, c))
        if v and (i == len(hist) - 1):
            return '{}: {}'.format(brief(c), v[1])
    return None


# ====================================================================== (c) System.step

ODES = {
    # name: (uses dt argument, uses t argument)
    'sqrtdecay-dt': dict(dt=True, t=False, u0=1., steps=[.125, 1., 8.]),
    'sqrtdecay-t': dict(dt=False, t=True, u0=1., steps=[.125, 1., 8.]),
    'sqrtdecay-both': dict(dt=True, t=True, u0=1., steps=[.125, 1., 8.]),
    'cubic-dt': dict(dt=True, t=False, u0=2., steps=[.125, 2., 64.]),
    'forced-t': dict(dt=False, t=True, u0=1., steps=[.25, 2., 16.]),
    'notime': dict(dt=True, t=False, u0=1., steps=[.125, 1., 8.]),
}


def ode_terms(name, u, u0, dt, t, t0):
    'terms of the scalar time-step residual, plain floats / numpy'
    with numpy.errstate(all='ignore'):
        if name == 'sqrtdecay-dt':
            return [(u - u0) / dt, numpy.sqrt(u)]
        if name == 'sqrtdecay-t':
            return [(u - u0) / (t - t0), numpy.sqrt(u)]
        if name == 'sqrtdecay-both':
            return [(u - u0) / dt, numpy.sqrt(u) * (1 + t)]
        if name == 'cubic-dt':
            return [(u - u0), dt * u * u * u]
        if name == 'forced-t':
            return [(u - u0), (t - t0) * u * u, -(t - t0) / (1 + t)]
        if name == 'notime':
            return [u * u, numpy.array([1.])]
    raise core.HarnessError(name)


def ode_system(name):
    from nutils import function, solver
    u = function.Argument('u', (1,))
    u0 = function.Argument('u0', (1,))
    dt = function.Argument('dt', ())
    t = function.Argument('t', ())
    t0 = function.Argument('t0', ())
    if name == 'sqrtdecay-dt':
        R = (u - u0) / dt + numpy.sqrt(u)
    elif name == 'sqrtdecay-t':
        R = (u - u0) / (t - t0) + numpy.sqrt(u)
    elif name == 'sqrtdecay-both':
        R = (u - u0) / dt + numpy.sqrt(u) * (1 + t)
    elif name == 'cubic-dt':
        R = (u - u0) + dt * u**3
    elif name == 'forced-t':
        R = (u - u0) + (t - t0) * u**2 - (t - t0) / (1 + t)
    elif name == 'notime':
        R = u**2 + 1.
    else:
        raise core.HarnessError(name)
    return solver.System([R], 'u')


STEP_METHODS = {'default': dict(tol=1e-10, maxiter=6), 'ls': dict(tol=1e-10, maxiter=12), 'loose': dict(tol=1e-3, maxiter=3)}


def _plain(d):
    return {k: (numpy.asarray(v).tolist()) for k, v in d.items()}


class StepRunner:
    'one System object with a recorder around its solve method'

    def __init__(self, name, mname):
        from nutils import solver
        self.name = name
        self.mname = mname
        self.S = ode_system(name)
        self.trace = []
        orig = self.S.solve
        trace = self.trace

        def recorder(**kw):
            from nutils import solver, matrix
            entry = {'in': _plain(kw['arguments'])}
            try:
                out = orig(**kw)
            except (solver.SolverError, matrix.MatrixError) as e:
                entry['err'] = 'ok'
                trace.append(entry)
                raise
            except Exception as e:
                entry['err'] = type(e).__name__
                trace.append(entry)
                raise
            entry['out'] = _plain(out)
            trace.append(entry)
            return out
        self.S.solve = recorder
        self.margs = dict(STEP_METHODS[mname])
        if mname == 'ls':
            self.margs['method'] = solver.LinesearchNewton()
        ode = ODES[name]
        self.kw = dict(suffix='0')
        if ode['dt']:
            self.kw['timesteparg'] = 'dt'
        if ode['t']:
            self.kw['timearg'] = 't'

    def initial(self):
        ode = ODES[self.name]
        args = {'u': numpy.array([ode['u0']])}
        if ode['t']:
            args['t'] = 0.
        return args

    def step(self, args, T, K, stats):
        'returns (violation or None, new arguments or None)'
        from nutils import solver, matrix
        del self.trace[:]
        state = _plain(args)
        new = None
        try:
            with numpy.errstate(all='ignore'), core.alarm(120):
                new = self.S.step(arguments=args, timestep=T, maxretry=K, **self.kw, **self.margs)
            outcome = ('returned', _plain(new))
        except (solver.SolverError, matrix.MatrixError) as e:
            outcome = ('raised', 'ok', type(e).__name__)
        except core.Timeout:
            stats['outcomes'].append('timeout')
            return None, None
        except Exception as e:
            outcome = ('raised', 'other', type(e).__name__ + '@' + _where(e) + ': ' + str(e)[:100])
        stats['solves'] += len(self.trace)
        v = validate_step(self.name, self.mname, state, T, K, list(self.trace), outcome, stats)
        stats['outcomes'].append(outcome[0] if outcome[0] == 'returned' else outcome[2].split(':')[0])
        return v, new


def run_steps(name, mname, seq):
    'fresh System; perform the step calls of seq = [[timestep, maxretry], ...]; returns ((index, key, what) or None, stats)'
    R = StepRunner(name, mname)
    args = R.initial()
    stats = {'solves': 0, 'maxdepth': 0, 'outcomes': []}
    for i, (T, K) in enumerate(seq):
        v, args = R.step(args, T, K, stats)
        if v:
            return (i,) + v, stats
        if args is None:
            break
    return None, stats


def validate_step(name, mname, state, T, K, trace, outcome, stats):
    '''reference model of a time step: a binary tree of attempts; an attempt over [t, t+T] starting from u either is one certified
    solve, or (solve raised a solver/matrix error, retries left, system depends on the time arguments) two attempts over the halves.'''
    ode = ODES[name]
    tol = STEP_METHODS[mname]['tol']
    timedep = name != 'notime'
    pos = [0]

    def certify(e):
        a = e['out']
        u = _arr(a['u'])
        if not numpy.isfinite(u).all():
            return 'step:nonfinite-returned', 'internal solve returned {}'.format(a)
        terms = ode_terms(name, u, _arr(a['u0']), a.get('dt'), a.get('t'), a.get('t0'))
        r = sum(terms)
        mag = float(sum(abs(x) for x in terms).max())
        if not numpy.isfinite(r).all() or not abs(r).max() <= tol * (1 + 1e-9) + 1e-12 * mag:
            return 'step:uncertified-substep', 'internal solve returned {} with residual {}'.format(a, r.tolist())
        return None

    def attempt(u, t, T, K, depth):
        'consume trace entries; returns (status, u, t) with status ok / raised, or a violation tuple'
        stats['maxdepth'] = max(stats['maxdepth'], depth)
        if pos[0] >= len(trace):
            return ('violation', 'step:missing-solve', 'no solve recorded for the attempt over [{}, {}] from u={}'.format(t, t + T, u))
        e = trace[pos[0]]
        pos[0] += 1
        a = e['in']
        if a['u0'] != u or a['u'] != u:
            return ('violation', 'step:wrong-start', 'attempt over [{}, {}] must start from u={} but the solve received u={} u0={}'.format(t, t + T, u, a['u'], a['u0']))
        if ode['dt'] and a.get('dt') != T:
            return ('violation', 'step:wrong-timestep', 'attempt of size {} received dt={}'.format(T, a.get('dt')))
        if ode['t'] and (a.get('t0') != t or a.get('t') != t + T):
            return ('violation', 'step:wrong-time', 'attempt over [{}, {}] received t0={} t={}'.format(t, t + T, a.get('t0'), a.get('t')))
        if 'out' in e:
            v = certify(e)
            if v:
                return ('violation',) + v
            o = e['out']
            if o['u0'] != u or (ode['t'] and (o['t0'] != t or o['t'] != t + T)) or (ode['dt'] and o['dt'] != T):
                return ('violation', 'step:solve-altered-arguments', 'solve returned {} for input {}'.format(o, a))
            return ('ok', o['u'], t + T, o)
        if e['err'] != 'ok':
            return ('raised-other', e['err'])
        if K <= 0 or not timedep:
            return ('raised',)
        if depth >= 8:
            return ('violation', 'step:runaway-retry', 'more retry levels than maxretry allows')
        first = attempt(u, t, T / 2, K - 1, depth + 1)
        if first[0] != 'ok':
            return first
        return attempt(first[1], first[2], T / 2, K - 1, depth + 1)

    t = state.get('t', 0.)
    r = attempt(state['u'], t, T, K, 0)
    if r[0] == 'violation':
        return r[1], r[2] + ' (step timestep={} maxretry={} from {})'.format(T, K, state)
    if pos[0] != len(trace):
        return 'step:extra-solves', '{} solves recorded, the retry tree accounts for {} (step timestep={} maxretry={} from {})'.format(len(trace), pos[0], T, K, state)
    if r[0] == 'ok':
        if outcome[0] != 'returned':
            return 'step:raised-after-success', 'all attempts succeeded but step raised {}'.format(outcome)
        if outcome[1] != r[3]:
            return 'step:result-differs-from-last-solve', 'step returned {} but the last solve returned {}'.format(outcome[1], r[3])
        o = outcome[1]
        if ode['t'] and not abs(o['t'] - (t + T)) <= 1e-12 * (1 + abs(t + T)):
            return 'step:wrong-time', 'step of size {} from t={} ended at t={}'.format(T, t, o['t'])
        return None
    if outcome[0] == 'returned':
        return 'step:returned-after-failure', 'an attempt failed without retries left but step returned {}'.format(outcome[1])
    if outcome[1] != 'ok' or r[0] == 'raised-other':
        return 'nl:raised-unexpected:' + outcome[2].split(':')[0], 'step raised {}'.format(outcome[2])
    return None


def explore_steps(res, name, mname, tier, first, upto=None, depth=3):
    '''depth-first over all sequences of <= 3 step calls (timestep x maxretry) whose first call is `first`, on ONE System object
    (steps are functional in the arguments dict, so a state is just that dict); a violation is confirmed on a fresh System.
    With upto=seq (replay of a history-dependent witness) the same traversal is repeated until that sequence and its verdict returned.'''
    ode = ODES[name]
    alphabet = [[T, K] for T in ode['steps'] for K in (0, 1, 2)]
    R = StepRunner(name, mname)

    def visit(args, seq):
        stats = {'solves': 0, 'maxdepth': 0, 'outcomes': []}
        T, K = seq[-1]
        v, new = R.step(args, T, K, stats)
        if upto is not None:
            if seq == upto:
                return ('done', v)
        else:
            res.count('evaluations')
            res.count('states')
            res.count('transitions', stats['solves'])
            res.maximum('max_retry_depth', stats['maxdepth'])
            res.distinct('distinct_outcomes', 'step:{}:{}:{}:{}'.format(name, mname, stats['outcomes'][-1], min(stats['maxdepth'], 2)))
            if v:
                fresh, _ = run_steps(name, mname, seq)
                if fresh and fresh[0] == len(seq) - 1:
                    res.violation(v[0], '{} {} sequence {}: {}'.format(name, mname, seq, v[1]), {'part': 'step', 'ode': name, 'method': mname, 'seq': seq})
                else:
                    res.violation(v[0] + ':history', '{} {} sequence {} (only after the preceding traversal on the same System): {}'.format(name, mname, seq, v[1]),
                                  {'part': 'step', 'ode': name, 'method': mname, 'first': first, 'upto': seq, 'depth': depth})
                return None
            res.count('traces_validated_against_impl')
            res.distinct('distinct_nontrivial', json.dumps([name, mname, seq]))
            if len(res.samples) < 2 and stats['maxdepth'] > 0:
                res.sample({'part': 'step', 'ode': name, 'method': mname, 'sequence': seq, 'internal_solves': stats['solves'], 'retry_depth': stats['maxdepth'], 'outcome': stats['outcomes'][-1]})
        if v is None and new is not None and len(seq) < depth:
            for a in alphabet:
                r = visit(new, seq + [a])
                if r is not None:
                    return r
        return None

    return visit(R.initial(), [first])


def replay_step(w):
    if 'upto' in w:
        r = explore_steps(None, w['ode'], w['method'], None, w['first'], upto=w['upto'], depth=w.get('depth', 3))
        if r is None or r[1] is None:
            return None
        return 'sequence {} after the preceding depth-first traversal: {}'.format(w['upto'], r[1][1])
    v, stats = run_steps(w['ode'], w['method'], w['seq'])
    if v is None:
        return None
    return 'step #{} of {}: {}'.format(v[0] + 1, w['seq'], v[2])
