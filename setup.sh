#!/bin/bash
# MANIFEST.setup_cmd: offline, idempotent. Installs the optional scipy backend next to (never into) /venv
# and runs the framework self-tests.
cd "$(dirname "${BASH_SOURCE[0]}")" || exit 2
if [ ! -d .deps/scipy ]; then
  /venv/bin/pip install -q --no-index --find-links /opt/veriftools/wheels --no-deps --target .deps scipy >/dev/null 2>&1 \
    || echo "setup: scipy wheel not installable; scipy-backend shards are skipped"
fi
mkdir -p evidence replays
PYTHONPATH=/repo/src:$PWD /venv/bin/python -m vmc.selftest || exit 2
echo setup ok
